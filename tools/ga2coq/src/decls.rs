//! T1 (declarations) and T2 (guards, integer arithmetic) extracted from the source.
use std::collections::BTreeMap;
use std::fmt::Write as _;
use syn::punctuated::Punctuated;
use syn::{BinOp, Expr, ImplItem, Item, Member, Pat, Stmt, Token};

type R<T> = Result<T, String>;

fn path_str(p: &syn::Path) -> String {
    p.segments.iter().map(|s| s.ident.to_string()).collect::<Vec<_>>().join("::")
}

fn strip(e: &Expr) -> &Expr {
    match e {
        Expr::Paren(p) => strip(&p.expr),
        Expr::Group(g) => strip(&g.expr),
        Expr::Reference(r) => strip(&r.expr),
        Expr::Unary(u) if matches!(u.op, syn::UnOp::Deref(_)) => strip(&u.expr),
        _ => e,
    }
}

// ------------------------------------------------------------------ gexpr

pub fn gexpr(e: &Expr) -> R<String> {
    let e = strip(e);
    match e {
        Expr::Lit(l) => match &l.lit {
            syn::Lit::Int(i) => Ok(format!("(GInt {})", i.base10_digits())),
            _ => Err("unsupported literal".into()),
        },
        Expr::Path(p) => {
            let s = path_str(&p.path);
            if s == "N::USIZE" {
                Ok("GN".into())
            } else if p.path.get_ident().is_some() {
                Ok(format!("(GVar \"{}\")", s))
            } else {
                Err(format!("unsupported path `{}`", s))
            }
        }
        Expr::MethodCall(m) if m.args.is_empty() && m.method == "len" => match strip(&m.receiver) {
            Expr::Path(p) if p.path.get_ident().is_some() => Ok(format!("(GVar \"{}.len\")", path_str(&p.path))),
            _ => Err("unsupported receiver of len()".into()),
        },
        Expr::Call(c) => {
            let f = match strip(&c.func) {
                Expr::Path(p) => path_str(&p.path),
                _ => return Err("unsupported callee".into()),
            };
            if (f == "min" || f == "cmp::min") && c.args.len() == 2 {
                Ok(format!("(GMin {} {})", gexpr(&c.args[0])?, gexpr(&c.args[1])?))
            } else {
                Err(format!("unsupported call `{}`", f))
            }
        }
        Expr::Binary(b) => {
            let op = match b.op {
                BinOp::Add(_) => "GAdd",
                BinOp::Sub(_) => "GSub",
                BinOp::Mul(_) => "GMul",
                BinOp::Div(_) => "GDiv",
                BinOp::Shr(_) => "GShr",
                BinOp::BitAnd(_) => "GAnd",
                _ => return Err("unsupported arithmetic operator".into()),
            };
            Ok(format!("({} {} {})", op, gexpr(&b.left)?, gexpr(&b.right)?))
        }
        _ => Err("unsupported arithmetic expression".into()),
    }
}

pub fn gcond(e: &Expr) -> R<String> {
    let e = strip(e);
    match e {
        Expr::Binary(b) => {
            let op = match b.op {
                BinOp::Ne(_) => "CNe",
                BinOp::Eq(_) => "CEq",
                BinOp::Lt(_) => "CLt",
                BinOp::Le(_) => "CLe",
                BinOp::Gt(_) => "CGt",
                BinOp::Ge(_) => "CGe",
                BinOp::Or(_) => return Ok(format!("(COr {} {})", gcond(&b.left)?, gcond(&b.right)?)),
                _ => return Err("unsupported comparison".into()),
            };
            Ok(format!("({} {} {})", op, gexpr(&b.left)?, gexpr(&b.right)?))
        }
        Expr::Unary(u) if matches!(u.op, syn::UnOp::Not(_)) => Ok(format!("(CNot {})", gcond(&u.expr)?)),
        Expr::MethodCall(m) if m.args.is_empty() && m.method == "is_empty" => match strip(&m.receiver) {
            Expr::Path(p) if p.path.get_ident().is_some() => {
                Ok(format!("(CEq (GVar \"{}.len\") (GInt 0))", path_str(&p.path)))
            }
            _ => Err("unsupported receiver of is_empty()".into()),
        },
        _ => Err("unsupported condition".into()),
    }
}

fn macro_first_arg(m: &syn::Macro) -> R<Expr> {
    let args = m
        .parse_body_with(Punctuated::<Expr, Token![,]>::parse_terminated)
        .map_err(|e| format!("cannot parse macro arguments: {}", e))?;
    args.into_iter().next().ok_or_else(|| "macro without arguments".to_string())
}

fn is_panic_block(b: &syn::Block) -> bool {
    b.stmts.len() == 1
        && match &b.stmts[0] {
            Stmt::Macro(m) => m.mac.path.is_ident("panic"),
            Stmt::Expr(Expr::Macro(m), _) => m.mac.path.is_ident("panic"),
            _ => false,
        }
}

fn is_return_err(b: &syn::Block) -> bool {
    b.stmts.len() == 1
        && match &b.stmts[0] {
            Stmt::Expr(Expr::Return(r), _) => match r.expr.as_deref() {
                Some(Expr::Call(c)) => matches!(strip(&c.func), Expr::Path(p) if p.path.is_ident("Err")),
                _ => false,
            },
            _ => false,
        }
}

/// The first statement of a body as a guard.
fn guard_of_stmt(s: &Stmt) -> R<String> {
    match s {
        Stmt::Expr(Expr::If(i), _) if i.else_branch.is_none() => {
            let c = gcond(&i.cond)?;
            if is_panic_block(&i.then_branch) {
                Ok(format!("mkGuard PanicIf {}", c))
            } else if is_return_err(&i.then_branch) {
                Ok(format!("mkGuard ErrIf {}", c))
            } else {
                Err("`if` guard whose body is neither panic!(..) nor return Err(..)".into())
            }
        }
        Stmt::Macro(m) if m.mac.path.is_ident("assert") => Ok(format!("mkGuard PanicUnless {}", gcond(&macro_first_arg(&m.mac)?)?)),
        Stmt::Expr(Expr::Macro(m), _) if m.mac.path.is_ident("assert") => {
            Ok(format!("mkGuard PanicUnless {}", gcond(&macro_first_arg(&m.mac)?)?))
        }
        Stmt::Expr(Expr::Match(m), _) => {
            // match c { true => Ok(..), false => Err(..) }
            let c = gcond(&m.expr)?;
            let mut ok_true = false;
            let mut err_false = false;
            for arm in &m.arms {
                let lit = match &arm.pat {
                    Pat::Lit(l) => match &l.lit {
                        syn::Lit::Bool(b) => Some(b.value),
                        _ => None,
                    },
                    _ => None,
                };
                let head = match strip(&arm.body) {
                    Expr::Call(c) => match strip(&c.func) {
                        Expr::Path(p) => path_str(&p.path),
                        _ => String::new(),
                    },
                    _ => String::new(),
                };
                match (lit, head.as_str()) {
                    (Some(true), "Ok") => ok_true = true,
                    (Some(false), "Err") => err_false = true,
                    _ => {}
                }
            }
            if ok_true && err_false && m.arms.len() == 2 {
                Ok(format!("mkGuard OkIfElseErr {}", c))
            } else {
                Err("match guard is not { true => Ok(..), false => Err(..) }".into())
            }
        }
        _ => Err("first statement is not a recognised guard".into()),
    }
}

fn self_ty_name(t: &syn::Type) -> String {
    match t {
        syn::Type::Path(p) => p.path.segments.last().map(|s| s.ident.to_string()).unwrap_or_default(),
        syn::Type::Reference(r) => self_ty_name(&r.elem),
        _ => String::new(),
    }
}

/// all `fn name` in impls whose self type's last path segment is `ty` (and, if given, whose
/// trait's last segment is `tr`); in traits (default methods) when `ty` names the trait
fn find_fns<'a>(file: &'a syn::File, ty: &str, tr: Option<&str>, name: &str) -> Vec<&'a syn::Block> {
    let mut v = vec![];
    for it in &file.items {
        match it {
            Item::Impl(im) => {
                let tn = im.trait_.as_ref().and_then(|t| t.1.segments.last().map(|s| s.ident.to_string()));
                if self_ty_name(&im.self_ty) == ty && (tr.is_none() || tn.as_deref() == tr) {
                    for ii in &im.items {
                        if let ImplItem::Fn(f) = ii {
                            if f.sig.ident == name {
                                v.push(&f.block);
                            }
                        }
                    }
                }
            }
            Item::Trait(t) if t.ident == ty => {
                for ti in &t.items {
                    if let syn::TraitItem::Fn(f) = ti {
                        if f.sig.ident == name {
                            if let Some(b) = &f.default {
                                v.push(b);
                            }
                        }
                    }
                }
            }
            _ => {}
        }
    }
    v
}

fn one<'a>(v: Vec<&'a syn::Block>, what: &str) -> R<&'a syn::Block> {
    if v.len() == 1 {
        Ok(v[0])
    } else {
        Err(format!("expected exactly one `{}`, found {}", what, v.len()))
    }
}

fn first_guard(file: &syn::File, ty: &str, tr: Option<&str>, name: &str) -> R<String> {
    let b = one(find_fns(file, ty, tr, name), name)?;
    let s = b.stmts.first().ok_or("empty body")?;
    guard_of_stmt(s)
}

/// several impls define `name` (e.g. TryFrom<Vec<T>> and TryFrom<Box<[T]>>): exactly one of
/// them must start with a guard, the others delegate
fn first_guard_among(file: &syn::File, ty: &str, tr: Option<&str>, name: &str) -> R<String> {
    let mut found = vec![];
    for b in find_fns(file, ty, tr, name) {
        if let Some(s) = b.stmts.first() {
            if let Ok(g) = guard_of_stmt(s) {
                found.push(g);
            }
        }
    }
    if found.len() == 1 {
        Ok(found.remove(0))
    } else {
        Err(format!("expected exactly one `{}` starting with a guard, found {}", name, found.len()))
    }
}

/// `let x = e;` statements of a block (in order), as (name, gexpr)
fn lets_of(b: &syn::Block) -> Vec<(String, R<String>)> {
    let mut v = vec![];
    for s in &b.stmts {
        if let Stmt::Local(l) = s {
            if let (Pat::Ident(p), Some(init)) = (&l.pat, &l.init) {
                v.push((p.ident.to_string(), gexpr(&init.expr)));
            }
        }
    }
    v
}

struct Out<'a> {
    s: &'a mut String,
    file: &'a str,
}
impl Out<'_> {
    fn def(&mut self, name: &str, ty: &str, r: R<String>, comment: &str) {
        match r {
            Ok(t) => writeln!(self.s, "(* {} *)\nDefinition {} : {} :=\n  {}.\n", comment, name, ty, t).unwrap(),
            Err(e) => println!("ERROR {} {}: {}", self.file, name, e),
        }
    }
}

/// the count / offset expressions of the two `from_raw_parts` calls in chunks_from_slice(_mut)
fn raw_parts_args(b: &syn::Block) -> R<(String, String, String)> {
    // find the tuple expression inside the trailing unsafe block
    fn tuple_in(e: &Expr) -> Option<&syn::ExprTuple> {
        match e {
            Expr::Unsafe(u) => u.block.stmts.last().and_then(|s| match s {
                Stmt::Expr(x, None) => tuple_in(x),
                _ => None,
            }),
            Expr::Tuple(t) => Some(t),
            Expr::Paren(p) => tuple_in(&p.expr),
            _ => None,
        }
    }
    let last = b.stmts.last().ok_or("empty body")?;
    let t = match last {
        Stmt::Expr(e, None) => tuple_in(e).ok_or("no result tuple")?,
        _ => return Err("no tail expression".into()),
    };
    if t.elems.len() != 2 {
        return Err("result is not a pair".into());
    }
    let call_args = |e: &Expr| -> R<(Expr, Expr)> {
        match strip(e) {
            Expr::Call(c) if c.args.len() == 2 => Ok((c.args[0].clone(), c.args[1].clone())),
            _ => Err("not a from_raw_parts call".into()),
        }
    };
    let (_p0, n0) = call_args(&t.elems[0])?;
    let (p1, n1) = call_args(&t.elems[1])?;
    // p1 = slice.as_ptr().add(off) / slice.as_mut_ptr().add(off)
    let off = match strip(&p1) {
        Expr::MethodCall(m) if m.method == "add" && m.args.len() == 1 => gexpr(&m.args[0])?,
        _ => return Err("second pointer is not `.add(offset)`".into()),
    };
    Ok((gexpr(&n0)?, off, gexpr(&n1)?))
}

pub fn gen_guards(files: &BTreeMap<String, syn::File>, out: &mut String) {
    out.push_str("From Coq Require Import String ZArith List.\nFrom GA Require Import Base Guards.\nImport ListNotations.\nLocal Open Scope string_scope.\nLocal Open Scope Z_scope.\n\n");
    let mut o = Out { s: out, file: "GenGuards.v" };
    if let Some(lib) = files.get("lib.rs") {
        for f in ["from_slice", "try_from_slice", "from_mut_slice", "try_from_mut_slice"] {
            o.def(&format!("{}_guard", f), "guard", first_guard(lib, "GenericArray", None, f), &format!("lib.rs :: GenericArray::{}", f));
        }
        for f in ["chunks_from_slice", "chunks_from_slice_mut"] {
            match one(find_fns(lib, "GenericArray", None, f), f) {
                Ok(b) => {
                    // if N::USIZE == 0 { assert!(slice.is_empty(), ..); return (..) }
                    let zero = match b.stmts.first() {
                        Some(Stmt::Expr(Expr::If(i), _)) => {
                            let c = gcond(&i.cond);
                            let a = i.then_branch.stmts.first().ok_or("empty zero branch".to_string()).and_then(guard_of_stmt);
                            (c, a)
                        }
                        _ => (Err("no `if N::USIZE == 0` first".into()), Err("no zero branch".into())),
                    };
                    o.def(&format!("{}_zero_cond", f), "gcond", zero.0, &format!("lib.rs :: {} :: the N = 0 branch", f));
                    o.def(&format!("{}_zero_guard", f), "guard", zero.1, &format!("lib.rs :: {} :: assert in the N = 0 branch", f));
                    let lets = lets_of(b);
                    let mut ok = true;
                    let mut items = vec![];
                    for (n, r) in lets {
                        match r {
                            Ok(t) => items.push(format!("(\"{}\", {})", n, t)),
                            Err(e) => {
                                println!("ERROR GenGuards.v {}_lets: let {}: {}", f, n, e);
                                ok = false;
                            }
                        }
                    }
                    if ok {
                        o.def(&format!("{}_lets", f), "list (string * gexpr)", Ok(format!("[{}]", items.join("; "))), &format!("lib.rs :: {} :: the lets, in order", f));
                    }
                    match raw_parts_args(b) {
                        Ok((n0, off, n1)) => {
                            o.def(&format!("{}_count", f), "gexpr", Ok(n0), &format!("lib.rs :: {} :: number of arrays in the first result", f));
                            o.def(&format!("{}_rem_offset", f), "gexpr", Ok(off), &format!("lib.rs :: {} :: element offset of the remainder", f));
                            o.def(&format!("{}_rem_len", f), "gexpr", Ok(n1), &format!("lib.rs :: {} :: length of the remainder", f));
                        }
                        Err(e) => println!("ERROR GenGuards.v {}_count: {}", f, e),
                    }
                }
                Err(e) => println!("ERROR GenGuards.v {}_lets: {}", f, e),
            }
        }
        for f in ["slice_from_chunks", "slice_from_chunks_mut"] {
            let r = one(find_fns(lib, "GenericArray", None, f), f).and_then(|b| {
                // unsafe { slice::from_raw_parts(ptr, LEN) }
                fn call_in(e: &Expr) -> Option<&syn::ExprCall> {
                    match e {
                        Expr::Unsafe(u) => u.block.stmts.last().and_then(|s| match s {
                            Stmt::Expr(x, None) => call_in(x),
                            _ => None,
                        }),
                        Expr::Call(c) => Some(c),
                        _ => None,
                    }
                }
                match b.stmts.last() {
                    Some(Stmt::Expr(e, None)) => match call_in(e) {
                        Some(c) if c.args.len() == 2 => gexpr(&c.args[1]),
                        _ => Err("no from_raw_parts call".into()),
                    },
                    _ => Err("no tail expression".into()),
                }
            });
            o.def(&format!("{}_len", f), "gexpr", r, &format!("lib.rs :: {} :: length of the flattened slice", f));
        }
        // try_from_iter: the two size-hint pre-check arms
        let r = one(find_fns(lib, "GenericArray", None, "try_from_iter"), "try_from_iter").and_then(|b| {
            for s in &b.stmts {
                if let Stmt::Expr(Expr::Match(m), _) = s {
                    let mut conds = vec![];
                    for arm in &m.arms {
                        if let Some((_, g)) = &arm.guard {
                            // the variable bound by the pattern: (n, _) => "lo", (_, Some(n)) => "hi"
                            let which = match &arm.pat {
                                Pat::Tuple(t) if t.elems.len() == 2 => match (&t.elems[0], &t.elems[1]) {
                                    (Pat::Ident(i), Pat::Wild(_)) => Some((i.ident.to_string(), "lo")),
                                    (Pat::Wild(_), Pat::TupleStruct(ts)) if ts.path.is_ident("Some") && ts.elems.len() == 1 => match &ts.elems[0] {
                                        Pat::Ident(i) => Some((i.ident.to_string(), "hi")),
                                        _ => None,
                                    },
                                    _ => None,
                                },
                                _ => None,
                            };
                            let (var, role) = which.ok_or("unsupported size-hint pattern")?;
                            let c = gcond(g)?;
                            conds.push(format!("(\"{}\", {})", role, c.replace(&format!("(GVar \"{}\")", var), &format!("(GVar \"{}\")", role))));
                        }
                    }
                    return Ok(format!("[{}]", conds.join("; ")));
                }
            }
            Err("no match on size_hint()".into())
        });
        o.def("try_from_iter_prechecks", "list (string * gcond)", r, "lib.rs :: try_from_iter :: size-hint arms that return Err (\"lo\" = lower bound, \"hi\" = upper bound when present)");
        // const_transmute: the size test
        let r = lib
            .items
            .iter()
            .find_map(|it| match it {
                Item::Fn(f) if f.sig.ident == "const_transmute" => Some(&f.block),
                _ => None,
            })
            .ok_or("const_transmute not found".to_string())
            .and_then(|b| match b.stmts.first() {
                Some(Stmt::Expr(Expr::If(i), _)) if is_panic_block(&i.then_branch) => {
                    // mem::size_of::<A>() != mem::size_of::<B>()
                    match strip(&i.cond) {
                        Expr::Binary(bin) if matches!(bin.op, BinOp::Ne(_)) => Ok("mkGuard PanicIf (CNe (GVar \"size_of_A\") (GVar \"size_of_B\"))".to_string()),
                        _ => Err("size test is not `!=`".into()),
                    }
                }
                _ => Err("no size test first".into()),
            });
        o.def("const_transmute_guard", "guard", r, "lib.rs :: const_transmute :: size test");
    }
    if let Some(seq) = files.get("sequence.rs") {
        for f in ["remove", "swap_remove"] {
            o.def(&format!("{}_guard", f), "guard", first_guard(seq, "Remove", None, f), &format!("sequence.rs :: Remove::{} (trait default)", f));
        }
        // remove_unchecked: ptr::copy(dst.add(1), dst, COUNT)
        let r = one(find_fns(seq, "GenericArray", Some("Remove"), "remove_unchecked"), "remove_unchecked").and_then(|b| {
            for s in &b.stmts {
                if let Stmt::Expr(Expr::Call(c), _) = s {
                    if matches!(strip(&c.func), Expr::Path(p) if path_str(&p.path) == "ptr::copy") && c.args.len() == 3 {
                        return gexpr(&c.args[2]);
                    }
                }
            }
            Err("no ptr::copy call".into())
        });
        o.def("remove_copy_count", "gexpr", r, "sequence.rs :: remove_unchecked :: number of elements shifted left");
    }
    if let Some(al) = files.get("impl_alloc.rs") {
        o.def("try_from_vec_guard", "guard", first_guard_among(al, "GenericArray", Some("TryFrom"), "try_from"), "impl_alloc.rs :: TryFrom<Vec<T>> (and, through it, TryFrom<Box<[T]>>)");
        o.def("try_from_boxed_slice_guard", "guard", first_guard(al, "GenericArray", None, "try_from_boxed_slice"), "impl_alloc.rs :: try_from_boxed_slice");
    }
    if let Some(sd) = files.get("impl_serde.rs") {
        // visit_seq: the up-front hint arm, the fullness test, the surplus-probe guard
        let vs = one(find_fns(sd, "GAVisitor", Some("Visitor"), "visit_seq"), "visit_seq");
        match vs {
            Ok(b) => {
                let mut hint: R<String> = Err("no `match seq.size_hint()` with a guarded Some(n) arm".into());
                for s in &b.stmts {
                    if let Stmt::Expr(Expr::Match(m), _) = s {
                        for arm in &m.arms {
                            if let (Pat::TupleStruct(ts), Some((_, g))) = (&arm.pat, &arm.guard) {
                                if ts.path.is_ident("Some") && ts.elems.len() == 1 {
                                    if let Pat::Ident(v) = &ts.elems[0] {
                                        hint = gcond(g).map(|c| c.replace(&format!("(GVar \"{}\")", v.ident), "(GVar \"hint\")"));
                                    }
                                }
                            }
                        }
                    }
                }
                o.def("serde_hint_guard", "gcond", hint, "impl_serde.rs :: visit_seq :: the up-front size-hint arm that returns invalid_length (hint = the announced count)");
                // inside the unsafe block: `if *position == N::USIZE { if seq.size_hint() != Some(K) && .. }`
                struct V {
                    full: Vec<String>,
                    probe: Vec<String>,
                }
                impl<'ast> syn::visit::Visit<'ast> for V {
                    fn visit_expr_if(&mut self, i: &'ast syn::ExprIf) {
                        if let Ok(c) = gcond(&i.cond) {
                            if c.contains("position") {
                                self.full.push(c);
                            }
                        }
                        // seq.size_hint() != Some(0) && seq.next_element::<Dummy>()?.is_some()
                        if let Expr::Binary(b) = strip(&i.cond) {
                            if matches!(b.op, BinOp::And(_)) {
                                if let Expr::Binary(l) = strip(&b.left) {
                                    let op = match l.op {
                                        BinOp::Ne(_) => Some("!="),
                                        BinOp::Eq(_) => Some("=="),
                                        _ => None,
                                    };
                                    let is_hint = matches!(strip(&l.left), Expr::MethodCall(m) if m.method == "size_hint");
                                    let lit = match strip(&l.right) {
                                        Expr::Call(c) if matches!(strip(&c.func), Expr::Path(p) if p.path.is_ident("Some")) && c.args.len() == 1 => match strip(&c.args[0]) {
                                            Expr::Lit(x) => match &x.lit {
                                                syn::Lit::Int(n) => Some(n.base10_digits().to_string()),
                                                _ => None,
                                            },
                                            _ => None,
                                        },
                                        _ => None,
                                    };
                                    let probes = matches!(strip(&b.right), Expr::MethodCall(m) if m.method == "is_some");
                                    if let (Some(op), true, Some(k), true) = (op, is_hint, lit, probes) {
                                        self.probe.push(format!("(\"{}\", {})", op, k));
                                    }
                                }
                            }
                        }
                        syn::visit::visit_expr_if(self, i);
                    }
                }
                let mut v = V { full: vec![], probe: vec![] };
                syn::visit::Visit::visit_block(&mut v, b);
                o.def("serde_full_test", "gcond", if v.full.len() == 1 { Ok(v.full[0].clone()) } else { Err(format!("expected one test on *position, found {}", v.full.len())) }, "impl_serde.rs :: visit_seq :: all N slots written?");
                o.def("serde_probe_guard", "string * Z", if v.probe.len() == 1 { Ok(v.probe[0].clone()) } else { Err(format!("expected one `size_hint() <op> Some(k) && ..is_some()` probe, found {}", v.probe.len())) }, "impl_serde.rs :: visit_seq :: the surplus probe runs when size_hint() <op> Some(k)");
            }
            Err(e) => println!("ERROR GenGuards.v serde_hint_guard: {}", e),
        }
        // the tuple length announced on both sides
        struct T(Vec<String>);
        impl<'ast> syn::visit::Visit<'ast> for T {
            fn visit_expr_method_call(&mut self, m: &'ast syn::ExprMethodCall) {
                if (m.method == "serialize_tuple" || m.method == "deserialize_tuple") && !m.args.is_empty() {
                    if let Ok(g) = gexpr(&m.args[0]) {
                        self.0.push(format!("(\"{}\", {})", m.method, g));
                    }
                }
                syn::visit::visit_expr_method_call(self, m);
            }
        }
        let mut t = T(vec![]);
        syn::visit::Visit::visit_file(&mut t, sd);
        o.def("serde_tuple_lens", "list (string * gexpr)", Ok(format!("[{}]", t.0.join("; "))), "impl_serde.rs :: the length passed to serialize_tuple / deserialize_tuple");
    }
    if let Some(hex) = files.get("hex.rs") {
        let r = hex
            .items
            .iter()
            .find_map(|it| match it {
                Item::Fn(f) if f.sig.ident == "generic_hex" => Some(&f.block),
                _ => None,
            })
            .ok_or("generic_hex not found".to_string());
        match r {
            Ok(b) => {
                let lets = lets_of(b);
                for (n, rr) in lets {
                    if n == "max_bytes" {
                        o.def("hex_max_bytes", "gexpr", rr, "hex.rs :: generic_hex :: max_bytes");
                    } else if n == "max_digits" {
                        if let Ok(t) = rr {
                            o.def("hex_max_digits_full", "gexpr", Ok(t), "hex.rs :: generic_hex :: max_digits before clamping to the precision");
                        }
                    }
                }
                // thresholds: the two `if N::USIZE <op> k` conditions, in order of appearance
                let mut conds: Vec<String> = vec![];
                struct V<'a>(&'a mut Vec<String>, &'a mut Vec<String>, &'a mut Vec<String>);
                impl<'ast> syn::visit::Visit<'ast> for V<'_> {
                    fn visit_expr_if(&mut self, i: &'ast syn::ExprIf) {
                        if let Ok(c) = gcond(&i.cond) {
                            if c.contains("GN") {
                                self.0.push(c);
                            }
                        }
                        syn::visit::visit_expr_if(self, i);
                    }
                    fn visit_expr_method_call(&mut self, m: &'ast syn::ExprMethodCall) {
                        if m.method == "chunks" && m.args.len() == 1 {
                            if let Ok(g) = gexpr(&m.args[0]) {
                                self.1.push(g);
                            }
                        }
                        syn::visit::visit_expr_method_call(self, m);
                    }
                    fn visit_expr_repeat(&mut self, r: &'ast syn::ExprRepeat) {
                        if let Ok(g) = gexpr(&r.len) {
                            self.2.push(g);
                        }
                        syn::visit::visit_expr_repeat(self, r);
                    }
                }
                let mut chunks = vec![];
                let mut bufs = vec![];
                syn::visit::Visit::visit_block(&mut V(&mut conds, &mut chunks, &mut bufs), b);
                // skip the `max_bytes > N::USIZE` unreachable hint
                let ths: Vec<String> = conds.into_iter().filter(|c| !c.contains("max_bytes")).collect();
                o.def("hex_strategy_conds", "list gcond", Ok(format!("[{}]", ths.join("; "))), "hex.rs :: generic_hex :: the strategy tests on N, outermost first");
                o.def("hex_chunk_sizes", "list gexpr", Ok(format!("[{}]", chunks.join("; "))), "hex.rs :: generic_hex :: argument of input.chunks(..)");
                o.def("hex_buffer_sizes", "list gexpr", Ok(format!("[{}]", bufs.join("; "))), "hex.rs :: generic_hex :: length of the [0u8; ..] buffer");
            }
            Err(e) => println!("ERROR GenGuards.v hex_max_bytes: {}", e),
        }
        // hex_encode_fallback: the unreachable guard, the two alphabets, the chunk width and zip order,
        // the two digit index expressions
        let r: R<()> = (|| {
            let f = hex
                .items
                .iter()
                .find_map(|it| match it {
                    Item::Fn(f) if f.sig.ident == "hex_encode_fallback" => Some(f),
                    _ => None,
                })
                .ok_or("hex_encode_fallback not found".to_string())?;
            let st = &f.block.stmts;
            if st.len() != 3 {
                return Err("hex_encode_fallback is not guard; alphabet; loop".into());
            }
            // if dst.len() < src.len() * 2 { unsafe { unreachable_unchecked() } }
            let guard = match &st[0] {
                Stmt::Expr(Expr::If(i), _) if i.else_branch.is_none() => gcond(&i.cond)?,
                _ => return Err("first statement is not the length hint".into()),
            };
            // let alphabet = match UPPER { true => b"..", false => b".." };
            let (aname, alphas) = match &st[1] {
                Stmt::Local(l) => {
                    let name = match &l.pat {
                        Pat::Ident(i) => i.ident.to_string(),
                        _ => return Err("alphabet pattern".into()),
                    };
                    let init = &l.init.as_ref().ok_or("alphabet initialiser")?.expr;
                    let m = match strip(init) {
                        Expr::Match(m) => m,
                        _ => return Err("alphabet is not a match on UPPER".into()),
                    };
                    let mut rows = vec![];
                    for a in &m.arms {
                        let key = match &a.pat {
                            Pat::Lit(l) => match &l.lit {
                                syn::Lit::Bool(b) => b.value,
                                _ => return Err("alphabet arm pattern".into()),
                            },
                            _ => return Err("alphabet arm pattern".into()),
                        };
                        let bytes = match strip(&a.body) {
                            Expr::Lit(l) => match &l.lit {
                                syn::Lit::ByteStr(b) => b.value(),
                                _ => return Err("alphabet arm is not a byte string".into()),
                            },
                            _ => return Err("alphabet arm is not a byte string".into()),
                        };
                        rows.push(format!("({}, [{}])", key, bytes.iter().map(|b| b.to_string()).collect::<Vec<_>>().join("; ")));
                    }
                    (name, rows)
                }
                _ => return Err("second statement is not the alphabet".into()),
            };
            // dst.chunks_exact_mut(2).zip(src).for_each(|(s, c)| { s[0] = alphabet[..]; s[1] = alphabet[..]; });
            let (width, dst_first, cvar, digits) = match &st[2] {
                Stmt::Expr(e, _) => match strip(e) {
                    Expr::MethodCall(fe) if fe.method == "for_each" && fe.args.len() == 1 => {
                        let z = match strip(&fe.receiver) {
                            Expr::MethodCall(z) if z.method == "zip" && z.args.len() == 1 => z,
                            _ => return Err("loop is not a zip".into()),
                        };
                        let chunk_of = |e: &Expr| -> Option<String> {
                            match strip(e) {
                                Expr::MethodCall(c) if c.method == "chunks_exact_mut" && c.args.len() == 1 => match strip(&c.receiver) {
                                    Expr::Path(p) if p.path.is_ident("dst") => gexpr(&c.args[0]).ok(),
                                    _ => None,
                                },
                                _ => None,
                            }
                        };
                        let is_src = |e: &Expr| matches!(strip(e), Expr::Path(p) if p.path.is_ident("src"));
                        let (width, dst_first) = if let (Some(w), true) = (chunk_of(&z.receiver), is_src(&z.args[0])) {
                            (w, true)
                        } else if let (true, Some(w)) = (is_src(&z.receiver), chunk_of(&z.args[0])) {
                            (w, false)
                        } else {
                            return Err("zip of something other than dst.chunks_exact_mut(k) and src".into());
                        };
                        let c = match strip(&fe.args[0]) {
                            Expr::Closure(c) => c,
                            _ => return Err("for_each argument".into()),
                        };
                        let names: Vec<String> = match c.inputs.first() {
                            Some(Pat::Tuple(t)) if t.elems.len() == 2 => t
                                .elems
                                .iter()
                                .map(|p| match p {
                                    Pat::Ident(i) => Ok(i.ident.to_string()),
                                    _ => Err("closure pattern".to_string()),
                                })
                                .collect::<R<Vec<_>>>()?,
                            _ => return Err("closure pattern".into()),
                        };
                        let (svar, cvar) = if dst_first { (names[0].clone(), names[1].clone()) } else { (names[1].clone(), names[0].clone()) };
                        let body = match strip(&c.body) {
                            Expr::Block(b) => &b.block.stmts,
                            _ => return Err("closure body".into()),
                        };
                        let mut digits = vec![];
                        for s in body {
                            // s[k] = alphabet[(EXPR) as usize];
                            let a = match s {
                                Stmt::Expr(Expr::Assign(a), Some(_)) => a,
                                _ => return Err("closure statement is not an assignment".into()),
                            };
                            let k = match strip(&a.left) {
                                Expr::Index(ix) if matches!(strip(&ix.expr), Expr::Path(p) if p.path.is_ident(&svar)) => gexpr(&ix.index)?,
                                _ => return Err("assignment target is not s[k]".into()),
                            };
                            let idx = match strip(&a.right) {
                                Expr::Index(ix) if matches!(strip(&ix.expr), Expr::Path(p) if p.path.is_ident(&aname)) => match strip(&ix.index) {
                                    Expr::Cast(c) => gexpr(&c.expr)?,
                                    other => gexpr(other)?,
                                },
                                _ => return Err("assigned value is not alphabet[..]".into()),
                            };
                            digits.push(format!("({}, {})", k, idx));
                        }
                        (width, dst_first, cvar, digits)
                    }
                    _ => return Err("third statement is not the loop".into()),
                },
                _ => return Err("third statement is not the loop".into()),
            };
            o.def("hex_fallback_guard", "gcond", Ok(guard), "hex.rs :: hex_encode_fallback :: the unreachable_unchecked hint");
            o.def("hex_alphabets", "list (bool * list Z)", Ok(format!("[{}]", alphas.join("; "))), "hex.rs :: hex_encode_fallback :: the two alphabets");
            o.def("hex_fallback_shape", "gexpr * bool * string", Ok(format!("({}, {}, \"{}\")", width, dst_first, cvar)), "hex.rs :: hex_encode_fallback :: width of a destination chunk, whether the destination chunks are the zip's first iterator, the name of the source byte");
            o.def("hex_fallback_digits", "list (gexpr * gexpr)", Ok(format!("[{}]", digits.join("; "))), "hex.rs :: hex_encode_fallback :: (index into the chunk, index into the alphabet) per assignment");
            Ok(())
        })();
        if let Err(e) = r {
            println!("ERROR GenGuards.v hex_encode_fallback: {}", e);
        }
    }
}

// ------------------------------------------------------------------ T1 declarations

fn repr_of(attrs: &[syn::Attribute]) -> String {
    for a in attrs {
        if a.path().is_ident("repr") {
            let mut r = String::new();
            let _ = a.parse_nested_meta(|m| {
                if let Some(i) = m.path.get_ident() {
                    if !r.is_empty() {
                        r.push('+');
                    }
                    r.push_str(&i.to_string());
                }
                // consume arguments such as align(8)
                if m.input.peek(syn::token::Paren) {
                    let content;
                    syn::parenthesized!(content in m.input);
                    let _: proc_macro2::TokenStream = content.parse()?;
                    r.push_str("(..)");
                }
                Ok(())
            });
            return r;
        }
    }
    String::new()
}

fn find_struct<'a>(file: &'a syn::File, name: &str) -> Option<&'a syn::ItemStruct> {
    file.items.iter().find_map(|it| match it {
        Item::Struct(s) if s.ident == name => Some(s),
        _ => None,
    })
}

/// type expression of a field / of an ArrayType right-hand side over the parameters
/// `params` (names -> index); `N::ArrayType<T>` is parameter 1 by convention
fn texp(t: &syn::Type, params: &[&str]) -> R<String> {
    match t {
        syn::Type::Path(p) => {
            let s = path_str(&p.path);
            if let Some(i) = params.iter().position(|x| *x == s) {
                return Ok(format!("(XParam {})", i));
            }
            let last = p.path.segments.last().unwrap();
            if last.ident == "PhantomData" {
                if let syn::PathArguments::AngleBracketed(a) = &last.arguments {
                    if let Some(syn::GenericArgument::Type(inner)) = a.args.first() {
                        return Ok(format!("(XPhantom {})", texp(inner, params)?));
                    }
                }
            }
            if s.ends_with("::ArrayType") || last.ident == "ArrayType" {
                return Ok("(XParam 1)".into());
            }
            Err(format!("unsupported type `{}`", s))
        }
        syn::Type::Array(a) => {
            let n = match &a.len {
                Expr::Lit(l) => match &l.lit {
                    syn::Lit::Int(i) => i.base10_digits().to_string(),
                    _ => return Err("array length".into()),
                },
                _ => return Err("array length".into()),
            };
            Ok(format!("(XArr {} {})", texp(&a.elem, params)?, n))
        }
        syn::Type::Tuple(t) if t.elems.is_empty() => Ok("XUnit".into()),
        _ => Err("unsupported type form".into()),
    }
}

fn struct_decl(s: &syn::ItemStruct, params: &[&str]) -> R<String> {
    let repr = match repr_of(&s.attrs).as_str() {
        "C" => "ReprC",
        "transparent" => "ReprTransparent",
        "" => "ReprRust",
        other => return Err(format!("unsupported repr({})", other)),
    };
    let mut fs = vec![];
    match &s.fields {
        syn::Fields::Named(n) => {
            for f in &n.named {
                fs.push(texp(&f.ty, params)?);
            }
        }
        _ => return Err("not a struct with named fields".into()),
    }
    Ok(format!("{{| d_repr := {}; d_fields := [{}] |}}", repr, fs.join("; ")))
}

/// `unsafe impl ArrayLength for <self_ty> { type ArrayType<T> = RHS; }`
fn arraytype_rhs<'a>(file: &'a syn::File, pred: impl Fn(&syn::Type) -> bool) -> R<&'a syn::Type> {
    for it in &file.items {
        if let Item::Impl(im) = it {
            let is_al = im.trait_.as_ref().map(|t| path_str(&t.1) == "ArrayLength").unwrap_or(false);
            if is_al && pred(&im.self_ty) {
                for ii in &im.items {
                    if let ImplItem::Type(t) = ii {
                        if t.ident == "ArrayType" {
                            return Ok(&t.ty);
                        }
                    }
                }
            }
        }
    }
    Err("ArrayLength impl not found".into())
}

fn uint_bit(t: &syn::Type) -> Option<String> {
    if let syn::Type::Path(p) = t {
        let last = p.path.segments.last()?;
        if last.ident == "UInt" {
            if let syn::PathArguments::AngleBracketed(a) = &last.arguments {
                if a.args.len() == 2 {
                    if let syn::GenericArgument::Type(syn::Type::Path(b)) = &a.args[1] {
                        return Some(path_str(&b.path));
                    }
                }
            }
        }
    }
    None
}

fn node_app(t: &syn::Type) -> R<String> {
    // GenericArrayImplEven<T, N::ArrayType<T>>
    if let syn::Type::Path(p) = t {
        let last = p.path.segments.last().ok_or("empty path")?;
        let name = match last.ident.to_string().as_str() {
            "GenericArrayImplEven" => "SEven",
            "GenericArrayImplOdd" => "SOdd",
            other => return Err(format!("unexpected storage node `{}`", other)),
        };
        if let syn::PathArguments::AngleBracketed(a) = &last.arguments {
            let mut args = vec![];
            for g in &a.args {
                if let syn::GenericArgument::Type(ty) = g {
                    args.push(texp(ty, &["T"])?);
                }
            }
            return Ok(format!("({}, [{}])", name, args.join("; ")));
        }
    }
    Err("unsupported ArrayType right-hand side".into())
}

pub fn gen_layout_decls(files: &BTreeMap<String, syn::File>, out: &mut String) {
    out.push_str("From Coq Require Import ZArith List.\nFrom GA Require Import Base Layout.\nImport ListNotations.\nLocal Open Scope Z_scope.\n\n");
    let mut o = Out { s: out, file: "GenLayoutDecls.v" };
    let Some(lib) = files.get("lib.rs") else {
        println!("ERROR GenLayoutDecls.v *: lib.rs missing");
        return;
    };
    let even = find_struct(lib, "GenericArrayImplEven").ok_or("struct not found".to_string()).and_then(|s| struct_decl(s, &["T", "U"]));
    o.def("impl_even", "decl", even, "lib.rs :: struct GenericArrayImplEven<T, U> (params 0 = T, 1 = U)");
    let odd = find_struct(lib, "GenericArrayImplOdd").ok_or("struct not found".to_string()).and_then(|s| struct_decl(s, &["T", "U"]));
    o.def("impl_odd", "decl", odd, "lib.rs :: struct GenericArrayImplOdd<T, U>");
    let ut = arraytype_rhs(lib, |t| self_ty_name(t) == "UTerm").and_then(|t| texp(t, &["T"]));
    o.def("arr_uterm", "texp", ut, "lib.rs :: <UTerm as ArrayLength>::ArrayType<T>");
    let b0 = arraytype_rhs(lib, |t| uint_bit(t).as_deref() == Some("B0")).and_then(node_app);
    o.def("arr_b0", "struct_name * list texp", b0, "lib.rs :: <UInt<N, B0> as ArrayLength>::ArrayType<T> (0 = T, 1 = N::ArrayType<T>)");
    let b1 = arraytype_rhs(lib, |t| uint_bit(t).as_deref() == Some("B1")).and_then(node_app);
    o.def("arr_b1", "struct_name * list texp", b1, "lib.rs :: <UInt<N, B1> as ArrayLength>::ArrayType<T>");
    let ga = find_struct(lib, "GenericArray").ok_or("struct not found".to_string()).and_then(|s| struct_decl(s, &["T"]));
    o.def("generic_array_decl", "decl", ga, "lib.rs :: struct GenericArray<T, N> (0 = T, 1 = N::ArrayType<T>)");
    o.s.push_str("Definition crate_decls : decls :=\n  {| dc_even := impl_even; dc_odd := impl_odd; dc_uterm := arr_uterm;\n     dc_b0 := arr_b0; dc_b1 := arr_b1; dc_ga := generic_array_decl |}.\n");
}

fn field_role(name: &str) -> R<&'static str> {
    match name {
        "parent1" => Ok("FParent1"),
        "parent2" => Ok("FParent2"),
        "data" => Ok("FData"),
        "_marker" => Ok("FMarker"),
        other => Err(format!("unexpected field `{}`", other)),
    }
}

fn init_of(e: &Expr) -> R<String> {
    match strip(e) {
        Expr::Path(p) => {
            let s = path_str(&p.path);
            match s.as_str() {
                "U::DEFAULT" => Ok("(DefaultOf TyU)".into()),
                "T::DEFAULT" => Ok("(DefaultOf TyT)".into()),
                "ConstDefault::DEFAULT" => Ok("(DefaultOf TyInfer)".into()),
                x if x.ends_with("PhantomData") => Ok("PhantomLit".into()),
                other => Err(format!("unsupported initialiser `{}`", other)),
            }
        }
        _ => Err("unsupported initialiser".into()),
    }
}

pub fn gen_const_default_decls(files: &BTreeMap<String, syn::File>, out: &mut String) {
    out.push_str("From Coq Require Import List.\nFrom GA Require Import Base ConstDefaultTypes.\nImport ListNotations.\n\n");
    let mut o = Out { s: out, file: "GenConstDefaultDecls.v" };
    if let Some(lib) = files.get("lib.rs") {
        for (name, st) in [("even_fields", "GenericArrayImplEven"), ("odd_fields", "GenericArrayImplOdd")] {
            let r = find_struct(lib, st).ok_or("struct not found".to_string()).and_then(|s| match &s.fields {
                syn::Fields::Named(n) => {
                    let mut v = vec![];
                    for f in &n.named {
                        v.push(field_role(&f.ident.as_ref().unwrap().to_string())?.to_string());
                    }
                    Ok(format!("[{}]", v.join("; ")))
                }
                _ => Err("not named fields".into()),
            });
            o.def(name, "list field", r, &format!("lib.rs :: struct {} :: fields in declared (memory) order", st));
        }
        // which node each bit selects
        let bit = |b: &str| -> R<String> {
            let t = arraytype_rhs(lib, |t| uint_bit(t).as_deref() == Some(b))?;
            match self_ty_name(t).as_str() {
                "GenericArrayImplEven" => Ok("NEven".into()),
                "GenericArrayImplOdd" => Ok("NOdd".into()),
                other => Err(format!("unexpected node `{}`", other)),
            }
        };
        let r = bit("B0").and_then(|z| bit("B1").map(|o1| format!("fun b1 => if b1 then {} else {}", o1, z)));
        o.def("arraytype_of_bit", "bool -> node", r, "lib.rs :: ArrayLength for UInt<N, B0> / UInt<N, B1> :: the storage node of a digit");
    }
    if let Some(cd) = files.get("impl_const_default.rs") {
        let inits = |ty: &str| -> R<BTreeMap<String, String>> {
            for it in &cd.items {
                if let Item::Impl(im) = it {
                    if self_ty_name(&im.self_ty) == ty && im.trait_.as_ref().map(|t| path_str(&t.1) == "ConstDefault").unwrap_or(false) {
                        for ii in &im.items {
                            if let ImplItem::Const(c) = ii {
                                if c.ident == "DEFAULT" {
                                    if let Expr::Struct(s) = &c.expr {
                                        let mut m = BTreeMap::new();
                                        for fv in &s.fields {
                                            if let Member::Named(n) = &fv.member {
                                                m.insert(n.to_string(), init_of(&fv.expr)?);
                                            }
                                        }
                                        if s.rest.is_some() {
                                            return Err("struct update syntax".into());
                                        }
                                        return Ok(m);
                                    }
                                    return Err("DEFAULT is not a struct literal".into());
                                }
                            }
                        }
                    }
                }
            }
            Err(format!("ConstDefault impl for {} not found", ty))
        };
        let pick = |m: &R<BTreeMap<String, String>>, f: &str| -> R<String> {
            match m {
                Ok(m) => m.get(f).cloned().ok_or(format!("field `{}` not initialised", f)),
                Err(e) => Err(e.clone()),
            }
        };
        let ev = inits("GenericArrayImplEven");
        o.def("even_parent1_init", "init", pick(&ev, "parent1"), "impl_const_default.rs :: GenericArrayImplEven :: parent1");
        o.def("even_parent2_init", "init", pick(&ev, "parent2"), "impl_const_default.rs :: GenericArrayImplEven :: parent2");
        o.def("even_marker_init", "init", pick(&ev, "_marker"), "impl_const_default.rs :: GenericArrayImplEven :: _marker");
        let od = inits("GenericArrayImplOdd");
        o.def("odd_parent1_init", "init", pick(&od, "parent1"), "impl_const_default.rs :: GenericArrayImplOdd :: parent1");
        o.def("odd_parent2_init", "init", pick(&od, "parent2"), "impl_const_default.rs :: GenericArrayImplOdd :: parent2");
        o.def("odd_data_init", "init", pick(&od, "data"), "impl_const_default.rs :: GenericArrayImplOdd :: data");
        let ga = inits("GenericArray");
        o.def("wrapper_data_init", "init", pick(&ga, "data"), "impl_const_default.rs :: GenericArray :: data");
    } else {
        println!("ERROR GenConstDefaultDecls.v *: impl_const_default.rs missing");
    }
}

/// every `pub const fn` / `const fn` of the crate, qualified by its impl's self type
pub fn gen_const_fns(files: &BTreeMap<String, syn::File>, out: &mut String) {
    out.push_str("From Coq Require Import String List.\nImport ListNotations.\nLocal Open Scope string_scope.\n\n");
    let mut names: Vec<String> = vec![];
    for (fname, file) in files {
        for it in &file.items {
            match it {
                Item::Fn(f) if f.sig.constness.is_some() => names.push(format!("{}", f.sig.ident)),
                Item::Impl(im) => {
                    let ty = self_ty_name(&im.self_ty);
                    for ii in &im.items {
                        if let ImplItem::Fn(f) = ii {
                            if f.sig.constness.is_some() {
                                names.push(format!("{}::{}", ty, f.sig.ident));
                            }
                        }
                    }
                }
                Item::Mod(m) => {
                    // e.g. `mod alloc_helper` in arr.rs
                    if let Some((_, items)) = &m.content {
                        for it in items {
                            if let Item::Impl(im) = it {
                                let ty = self_ty_name(&im.self_ty);
                                for ii in &im.items {
                                    if let ImplItem::Fn(f) = ii {
                                        if f.sig.constness.is_some() {
                                            names.push(format!("{}::{}", ty, f.sig.ident));
                                        }
                                    }
                                }
                            }
                        }
                    }
                }
                _ => {}
            }
        }
        let _ = fname;
    }
    names.sort();
    names.dedup();
    writeln!(out, "(* every function the source declares `const` (impl self type :: name) *)\nDefinition source_const_fns : list string :=\n  [{}].", names.iter().map(|n| format!("\"{}\"", n)).collect::<Vec<_>>().join(";\n   ")).unwrap();
}

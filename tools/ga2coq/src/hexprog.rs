//! T3 for generic_hex (src/hex.rs): its body as the statement list of coq/theories/HexProg.v, the
//! two trait impls that call it, and the cfg-selected encoder call of hex_encode.  Fail-closed.
use quote::ToTokens;
use std::collections::BTreeMap;
use std::fmt::Write as _;
use syn::{BinOp, Block, Expr, Item, Lit, Pat, Stmt};

type R<T> = Result<T, String>;

fn strip(e: &Expr) -> &Expr {
    match e {
        Expr::Paren(p) => strip(&p.expr),
        Expr::Group(g) => strip(&g.expr),
        _ => e,
    }
}
fn strip_ref(e: &Expr) -> &Expr {
    match strip(e) {
        Expr::Reference(r) => strip_ref(&r.expr),
        o => o,
    }
}
fn path_of(e: &Expr) -> Vec<String> {
    match strip(e) {
        Expr::Path(p) => p.path.segments.iter().map(|s| s.ident.to_string()).collect(),
        _ => vec![],
    }
}
fn ident_of(e: &Expr) -> Option<String> {
    let p = path_of(e);
    if p.len() == 1 {
        Some(p[0].clone())
    } else {
        None
    }
}
fn pat_ident(p: &Pat) -> Option<String> {
    match p {
        Pat::Ident(i) if i.by_ref.is_none() && i.subpat.is_none() => Some(i.ident.to_string()),
        _ => None,
    }
}
fn txt<T: ToTokens>(t: &T) -> String {
    t.to_token_stream().to_string().split_whitespace().collect::<Vec<_>>().join(" ")
}
fn int_lit(e: &Expr) -> Option<u128> {
    if let Expr::Lit(l) = strip(e) {
        if let Lit::Int(i) = &l.lit {
            return i.base10_parse::<u128>().ok();
        }
    }
    None
}

/// usize expression
fn xexpr(e: &Expr) -> R<String> {
    let e = strip(e);
    if let Some(v) = int_lit(e) {
        return Ok(format!("XInt {}", v));
    }
    let p = path_of(e);
    if p == ["N", "USIZE"] {
        return Ok("XN".into());
    }
    if p.len() == 1 {
        return Ok(format!("XVar \"{}\"", p[0]));
    }
    match e {
        Expr::Binary(b) => {
            let l = xexpr(&b.left)?;
            match &b.op {
                BinOp::Mul(_) => Ok(format!("XMul ({}) ({})", l, xexpr(&b.right)?)),
                BinOp::Add(_) => Ok(format!("XAdd ({}) ({})", l, xexpr(&b.right)?)),
                BinOp::Shr(_) => Ok(format!("XShr ({}) {}", l, int_lit(&b.right).ok_or("shift by a non-literal")?)),
                BinOp::BitAnd(_) => Ok(format!("XAnd ({}) {}", l, int_lit(&b.right).ok_or("mask with a non-literal")?)),
                o => Err(format!("unsupported usize operator `{}`", txt(o))),
            }
        }
        Expr::Call(c) => {
            let f = path_of(&c.func);
            if f.last().map(|s| s == "min").unwrap_or(false) && c.args.len() == 2 {
                Ok(format!("XMin ({}) ({})", xexpr(&c.args[0])?, xexpr(&c.args[1])?))
            } else {
                Err(format!("unsupported call `{}` in a usize expression", txt(c)))
            }
        }
        Expr::MethodCall(m) if m.method == "len" && m.args.is_empty() => {
            Ok(format!("XLen \"{}\"", ident_of(&m.receiver).ok_or("len() of something that is not a variable")?))
        }
        o => Err(format!("unsupported usize expression `{}`", txt(o))),
    }
}

fn cond(e: &Expr) -> R<String> {
    if let Expr::Binary(b) = strip(e) {
        let (l, r) = (xexpr(&b.left)?, xexpr(&b.right)?);
        return match &b.op {
            BinOp::Lt(_) => Ok(format!("CLt ({}) ({})", l, r)),
            BinOp::Le(_) => Ok(format!("CLe ({}) ({})", l, r)),
            BinOp::Gt(_) => Ok(format!("CGt ({}) ({})", l, r)),
            BinOp::Ge(_) => Ok(format!("CLe ({}) ({})", r, l)),
            o => Err(format!("unsupported comparison `{}`", txt(o))),
        };
    }
    Err(format!("unsupported condition `{}`", txt(e)))
}

/// `unsafe { core::hint::unreachable_unchecked() }` possibly followed by `;`
fn is_unreachable_block(b: &Block) -> bool {
    if b.stmts.len() != 1 {
        return false;
    }
    let e = match &b.stmts[0] {
        Stmt::Expr(e, _) => e,
        _ => return false,
    };
    if let Expr::Unsafe(u) = strip(e) {
        if u.block.stmts.len() == 1 {
            if let Stmt::Expr(Expr::Call(c), _) = &u.block.stmts[0] {
                return path_of(&c.func).last().map(|s| s == "unreachable_unchecked").unwrap_or(false) && c.args.is_empty();
            }
        }
    }
    false
}

/// `&s[..e]`
fn prefix_slice(e: &Expr) -> Option<(String, &Expr)> {
    if let Expr::Reference(r) = strip(e) {
        if r.mutability.is_some() {
            return None;
        }
        if let Expr::Index(ix) = strip(&r.expr) {
            if let Expr::Range(rg) = strip(&ix.index) {
                if rg.start.is_none() && matches!(rg.limits, syn::RangeLimits::HalfOpen(_)) {
                    return Some((ident_of(&ix.expr)?, rg.end.as_deref()?));
                }
            }
        }
    }
    None
}

/// the length a type-level length denotes: N, Sum<A, B>, U<k>
fn type_len(t: &syn::Type) -> R<String> {
    if let syn::Type::Path(p) = t {
        let seg = p.path.segments.last().ok_or("empty type path")?;
        let name = seg.ident.to_string();
        match &seg.arguments {
            syn::PathArguments::None => {
                if name == "N" {
                    return Ok("XN".into());
                }
                if let Some(k) = name.strip_prefix('U').and_then(|d| d.parse::<u128>().ok()) {
                    return Ok(format!("XInt {}", k));
                }
            }
            syn::PathArguments::AngleBracketed(ab) if name == "Sum" && ab.args.len() == 2 => {
                let mut parts = vec![];
                for a in &ab.args {
                    if let syn::GenericArgument::Type(t) = a {
                        parts.push(type_len(t)?);
                    } else {
                        return Err("Sum<..> over something that is not a type".into());
                    }
                }
                return Ok(format!("XAdd ({}) ({})", parts[0], parts[1]));
            }
            _ => {}
        }
    }
    Err(format!("unsupported length type `{}`", txt(t)))
}

/// `GenericArray::<u8, L>::default()` -> the length L
fn ga_default(e: &Expr) -> R<Option<String>> {
    if let Expr::Call(c) = strip(e) {
        if let Expr::Path(p) = strip(&c.func) {
            let segs: Vec<_> = p.path.segments.iter().collect();
            if segs.len() == 2 && segs[0].ident == "GenericArray" && segs[1].ident == "default" && c.args.is_empty() {
                if let syn::PathArguments::AngleBracketed(ab) = &segs[0].arguments {
                    let args: Vec<_> = ab.args.iter().collect();
                    if args.len() == 2 {
                        if let (syn::GenericArgument::Type(t0), syn::GenericArgument::Type(t1)) = (args[0], args[1]) {
                            if txt(t0) != "u8" {
                                return Err("the stack buffer's element type is not u8".into());
                            }
                            return Ok(Some(type_len(t1)?));
                        }
                    }
                }
                return Err("GenericArray::default() without the two type arguments".into());
            }
        }
    }
    Ok(None)
}

/// `f.write_str(unsafe { str::from_utf8_unchecked(buf.get_unchecked(..n)) })?`
fn write_stmt(e: &Expr) -> R<Option<String>> {
    let t = match strip(e) {
        Expr::Try(t) => t,
        _ => return Ok(None),
    };
    let m = match strip(&t.expr) {
        Expr::MethodCall(m) if m.method == "write_str" && m.args.len() == 1 => m,
        _ => return Ok(None),
    };
    if ident_of(&m.receiver).as_deref() != Some("f") {
        return Err("write_str on something other than the formatter `f`".into());
    }
    let u = match strip(&m.args[0]) {
        Expr::Unsafe(u) if u.block.stmts.len() == 1 => u,
        _ => return Err("write_str argument is not `unsafe { str::from_utf8_unchecked(..) }`".into()),
    };
    let c = match &u.block.stmts[0] {
        Stmt::Expr(Expr::Call(c), None) => c,
        _ => return Err("write_str argument is not a single call".into()),
    };
    if !path_of(&c.func).last().map(|s| s == "from_utf8_unchecked").unwrap_or(false) || c.args.len() != 1 {
        return Err("write_str argument is not from_utf8_unchecked(..)".into());
    }
    let g = match strip(&c.args[0]) {
        Expr::MethodCall(g) if g.method == "get_unchecked" && g.args.len() == 1 => g,
        _ => return Err("from_utf8_unchecked of something other than buf.get_unchecked(..n)".into()),
    };
    let buf = ident_of(&g.receiver).ok_or("get_unchecked on something that is not a variable")?;
    let end = match strip(&g.args[0]) {
        Expr::Range(r) if r.start.is_none() && matches!(r.limits, syn::RangeLimits::HalfOpen(_)) => r.end.as_deref().ok_or("open range")?,
        _ => return Err("get_unchecked with something other than `..n`".into()),
    };
    Ok(Some(format!("SWrite \"{}\" ({})", buf, xexpr(end)?)))
}

/// `hex_encode[_fallback]::<UPPER>(src, &mut buf)`
fn encode_stmt(e: &Expr) -> R<Option<String>> {
    let c = match strip(e) {
        Expr::Call(c) => c,
        _ => return Ok(None),
    };
    let p = match strip(&c.func) {
        Expr::Path(p) if p.path.segments.len() == 1 => &p.path.segments[0],
        _ => return Ok(None),
    };
    let fallback = match p.ident.to_string().as_str() {
        "hex_encode_fallback" => true,
        "hex_encode" => false,
        _ => return Ok(None),
    };
    match &p.arguments {
        syn::PathArguments::AngleBracketed(ab) if ab.args.len() == 1 && txt(&ab.args[0]) == "UPPER" => {}
        _ => return Err("encoder called without `::<UPPER>`".into()),
    }
    if c.args.len() != 2 {
        return Err("encoder called with other than two arguments".into());
    }
    let src = ident_of(strip_ref(&c.args[0])).ok_or("encoder source is not a variable")?;
    let buf = match strip(&c.args[1]) {
        Expr::Reference(r) if r.mutability.is_some() => ident_of(&r.expr).ok_or("encoder destination is not `&mut <variable>`")?,
        _ => return Err("encoder destination is not `&mut <variable>`".into()),
    };
    Ok(Some(format!("SEncode {} \"{}\" \"{}\"", fallback, src, buf)))
}

fn list(v: &[String]) -> String {
    format!("[{}]", v.join("; "))
}

fn block(stmts: &[Stmt], top: bool) -> R<Vec<String>> {
    let mut out = vec![];
    for (i, s) in stmts.iter().enumerate() {
        let last = i + 1 == stmts.len();
        match s {
            Stmt::Local(l) => {
                let x = pat_ident(&l.pat).ok_or_else(|| format!("unsupported pattern `{}`", txt(&l.pat)))?;
                let init = l.init.as_ref().ok_or("let without initialiser")?;
                if init.diverge.is_some() {
                    return Err("let-else".into());
                }
                let e = strip(&init.expr);
                // match f.precision() { Some(p) if p < B => p, _ => B }
                if let Expr::Match(m) = e {
                    let scrut_ok = match strip(&m.expr) {
                        Expr::MethodCall(mc) => mc.method == "precision" && mc.args.is_empty() && ident_of(&mc.receiver).as_deref() == Some("f"),
                        _ => false,
                    };
                    if !scrut_ok || m.arms.len() != 2 {
                        return Err("a match that is not `match f.precision() { Some(p) if p < B => p, _ => B }`".into());
                    }
                    let a0 = &m.arms[0];
                    let p = match &a0.pat {
                        Pat::TupleStruct(ts) if txt(&ts.path) == "Some" && ts.elems.len() == 1 => pat_ident(&ts.elems[0]).ok_or("Some(<pattern>)")?,
                        _ => return Err("first arm is not Some(p)".into()),
                    };
                    let (_, g) = a0.guard.as_ref().ok_or("first arm has no guard")?;
                    let bound = match strip(g) {
                        Expr::Binary(b) if matches!(b.op, BinOp::Lt(_)) && ident_of(&b.left).as_deref() == Some(p.as_str()) => xexpr(&b.right)?,
                        _ => return Err("guard is not `p < bound`".into()),
                    };
                    if ident_of(&a0.body).as_deref() != Some(p.as_str()) {
                        return Err("first arm does not yield the precision".into());
                    }
                    let a1 = &m.arms[1];
                    if !matches!(a1.pat, Pat::Wild(_)) || a1.guard.is_some() || xexpr(&a1.body)? != bound {
                        return Err("second arm is not `_ => bound`".into());
                    }
                    out.push(format!("SLetPrec \"{}\" ({})", x, bound));
                    continue;
                }
                // { if C { unsafe { unreachable_unchecked() } } &s[..e] }
                if let Expr::Block(b) = e {
                    let st = &b.block.stmts;
                    if st.len() == 2 {
                        if let (Stmt::Expr(Expr::If(iff), _), Stmt::Expr(tail, None)) = (&st[0], &st[1]) {
                            if iff.else_branch.is_none() && is_unreachable_block(&iff.then_branch) {
                                if let Some((src, end)) = prefix_slice(tail) {
                                    out.push(format!("SLetPrefix \"{}\" ({}) \"{}\" ({})", x, cond(&iff.cond)?, src, xexpr(end)?));
                                    continue;
                                }
                            }
                        }
                    }
                    return Err(format!("unsupported block initialiser of `{}`", x));
                }
                if let Some(len) = ga_default(e)? {
                    out.push(format!("SBufDefault \"{}\" ({})", x, len));
                    continue;
                }
                if let Expr::Repeat(r) = e {
                    let zero = match strip(&r.expr) {
                        Expr::Lit(l) => matches!(&l.lit, Lit::Int(i) if i.base10_digits() == "0" && i.suffix() == "u8"),
                        _ => false,
                    };
                    if !zero {
                        return Err("a repeat buffer that is not `[0u8; len]`".into());
                    }
                    out.push(format!("SBufZeroed \"{}\" ({})", x, xexpr(&r.len)?));
                    continue;
                }
                out.push(format!("SLet \"{}\" ({})", x, xexpr(e)?));
            }
            Stmt::Expr(e, semi) => {
                let e = strip(e);
                // the final Ok(())
                if top && last && semi.is_none() {
                    if let Expr::Call(c) = e {
                        if path_of(&c.func) == ["Ok"] && c.args.len() == 1 && matches!(strip(&c.args[0]), Expr::Tuple(t) if t.elems.is_empty()) {
                            continue;
                        }
                    }
                    return Err("the body does not end in Ok(())".into());
                }
                match e {
                    Expr::If(iff) => {
                        let t = block(&iff.then_branch.stmts, false)?;
                        let el = match &iff.else_branch {
                            Some((_, eb)) => match strip(eb) {
                                Expr::Block(b) => block(&b.block.stmts, false)?,
                                _ => return Err("else-if chains are not supported".into()),
                            },
                            None => vec![],
                        };
                        out.push(format!("SIf ({}) {} {}", cond(&iff.cond)?, list(&t), list(&el)));
                    }
                    Expr::ForLoop(fl) => {
                        let x = pat_ident(&fl.pat).ok_or("for pattern")?;
                        let (src, k) = match strip(&fl.expr) {
                            Expr::MethodCall(m) if m.method == "chunks" && m.args.len() == 1 => (ident_of(&m.receiver).ok_or("chunks() of something that is not a variable")?, xexpr(&m.args[0])?),
                            _ => return Err("a for loop over something other than `s.chunks(k)`".into()),
                        };
                        let body = block(&fl.body.stmts, false)?;
                        out.push(format!("SForChunks \"{}\" \"{}\" ({}) {}", x, src, k, list(&body)));
                    }
                    Expr::Binary(b) if matches!(b.op, BinOp::SubAssign(_)) => {
                        out.push(format!("SSubAssign \"{}\" ({})", ident_of(&b.left).ok_or("`-=` on something that is not a variable")?, xexpr(&b.right)?));
                    }
                    other => {
                        if let Some(w) = write_stmt(other)? {
                            out.push(w);
                        } else if let Some(c) = encode_stmt(other)? {
                            out.push(c);
                        } else {
                            return Err(format!("unsupported statement `{}`", txt(other).chars().take(120).collect::<String>()));
                        }
                    }
                }
            }
            other => return Err(format!("unsupported statement `{}`", txt(other).chars().take(120).collect::<String>())),
        }
    }
    Ok(out)
}

pub fn gen_hex(files: &BTreeMap<String, syn::File>, out: &mut String) {
    out.push_str("From Coq Require Import String ZArith List.\nFrom GA Require Import Base Hex HexProg.\nImport ListNotations.\nLocal Open Scope string_scope.\nLocal Open Scope Z_scope.\n\n");
    let Some(file) = files.get("hex.rs") else {
        println!("ERROR GenHex.v *: hex.rs missing");
        return;
    };
    // ---- generic_hex
    let r: R<Vec<String>> = (|| {
        let mut found = None;
        for it in &file.items {
            if let Item::Fn(f) = it {
                if f.sig.ident == "generic_hex" {
                    if found.is_some() {
                        return Err("generic_hex defined more than once".to_string());
                    }
                    found = Some(f);
                }
            }
        }
        let f = found.ok_or("generic_hex not found")?;
        let params: Vec<String> = f.sig.inputs.iter().map(|a| match a {
            syn::FnArg::Typed(t) => pat_ident(&t.pat).unwrap_or_default(),
            _ => String::new(),
        }).collect();
        if params != ["arr", "f"] {
            return Err(format!("parameters are {:?}, expected arr, f", params));
        }
        block(&f.block.stmts, true)
    })();
    match r {
        Ok(s) => writeln!(out, "(* hex.rs :: generic_hex :: the body *)\nDefinition gen_generic_hex : list hs :=\n  [{}].", s.join(";\n   ")).unwrap(),
        Err(e) => println!("ERROR GenHex.v generic_hex: {}", e),
    }
    // ---- the two trait impls: fmt(&self, f) = generic_hex::<_, UPPER>(self, f)
    let r: R<Vec<String>> = (|| {
        let mut rows = vec![];
        for it in &file.items {
            let Item::Impl(im) = it else { continue };
            let Some((_, tr, _)) = &im.trait_ else { continue };
            let tname = tr.segments.last().unwrap().ident.to_string();
            for ii in &im.items {
                let syn::ImplItem::Fn(f) = ii else { continue };
                if f.sig.ident != "fmt" {
                    return Err(format!("{}: a method other than fmt", tname));
                }
                if f.block.stmts.len() != 1 {
                    return Err(format!("{}::fmt is not a single call", tname));
                }
                let Stmt::Expr(Expr::Call(c), None) = &f.block.stmts[0] else { return Err(format!("{}::fmt is not a single call", tname)) };
                let Expr::Path(p) = strip(&c.func) else { return Err(format!("{}::fmt does not call a path", tname)) };
                let seg = p.path.segments.last().unwrap();
                if seg.ident != "generic_hex" || p.path.segments.len() != 1 {
                    return Err(format!("{}::fmt does not call generic_hex", tname));
                }
                let upper = match &seg.arguments {
                    syn::PathArguments::AngleBracketed(ab) if ab.args.len() == 2 && txt(&ab.args[0]) == "_" => match txt(&ab.args[1]).as_str() {
                        "true" => true,
                        "false" => false,
                        o => return Err(format!("{}::fmt: UPPER argument `{}`", tname, o)),
                    },
                    _ => return Err(format!("{}::fmt: generic_hex without `::<_, UPPER>`", tname)),
                };
                let args: Vec<String> = c.args.iter().map(|a| txt(a)).collect();
                if args != ["self", "f"] {
                    return Err(format!("{}::fmt passes {:?}", tname, args));
                }
                rows.push(format!("(\"{}\", {})", tname, upper));
            }
        }
        Ok(rows)
    })();
    match r {
        Ok(rows) => writeln!(out, "\n(* hex.rs :: impl fmt::LowerHex / fmt::UpperHex :: fmt(&self, f) = generic_hex::<_, UPPER>(self, f) *)\nDefinition gen_hex_impls : list (string * bool) :=\n  [{}].", rows.join("; ")).unwrap(),
        Err(e) => println!("ERROR GenHex.v hex_impls: {}", e),
    }
    // ---- hex_encode: the statements with their cfg attributes, as normalised token text
    let r: R<Vec<String>> = (|| {
        let mut found = None;
        for it in &file.items {
            if let Item::Fn(f) = it {
                if f.sig.ident == "hex_encode" {
                    found = Some(f);
                }
            }
        }
        let f = found.ok_or("hex_encode not found")?;
        let esc = |s: String| s.replace('"', "\"\"");
        let mut rows = vec![];
        for s in &f.block.stmts {
            let (attrs, body) = match s {
                Stmt::Expr(e, _) => {
                    let attrs: Vec<String> = match e {
                        Expr::Call(c) => c.attrs.iter().map(|a| txt(a)).collect(),
                        Expr::Match(m) => m.attrs.iter().map(|a| txt(a)).collect(),
                        Expr::Macro(m) => m.attrs.iter().map(|a| txt(a)).collect(),
                        _ => vec![],
                    };
                    let mut e2 = e.clone();
                    match &mut e2 {
                        Expr::Call(c) => c.attrs.clear(),
                        Expr::Match(m) => m.attrs.clear(),
                        Expr::Macro(m) => m.attrs.clear(),
                        _ => {}
                    }
                    (attrs, txt(&e2))
                }
                Stmt::Macro(m) => (m.attrs.iter().map(|a| txt(a)).collect(), txt(&m.mac)),
                other => (vec![], txt(other)),
            };
            rows.push(format!("(\"{}\", \"{}\")", esc(attrs.join(" ")), esc(body)));
        }
        Ok(rows)
    })();
    match r {
        Ok(rows) => writeln!(out, "\n(* hex.rs :: hex_encode :: (cfg attribute, statement) as normalised token text *)\nDefinition gen_hex_encode : list (string * string) :=\n  [{}].", rows.join(";\n   ")).unwrap(),
        Err(e) => println!("ERROR GenHex.v hex_encode: {}", e),
    }
}

//! T3 for the heap conversions of src/impl_alloc.rs: each body becomes an `hbody` of
//! coq/theories/HeapProg.v (optional length guard + one expression over std operations and
//! calls of the file's other functions).  Method calls are resolved from the declared types.
//! Fail-closed.
use std::collections::BTreeMap;
use std::fmt::Write as _;
use syn::{BinOp, Expr, ImplItem, Item, Pat, Stmt, Type};

type R<T> = Result<T, String>;

#[derive(Clone, Copy, Debug, PartialEq)]
enum Ty {
    BoxArr,
    BoxSlice,
    VecT,
    Arr,
    RawThin,
    RawFat,
    ResBoxArr,
    ResArr,
}

fn strip(e: &Expr) -> &Expr {
    match e {
        Expr::Paren(p) => strip(&p.expr),
        Expr::Group(g) => strip(&g.expr),
        Expr::Unsafe(u) if u.block.stmts.len() == 1 => match &u.block.stmts[0] {
            Stmt::Expr(x, None) => strip(x),
            _ => e,
        },
        _ => e,
    }
}
fn path_of(e: &Expr) -> Vec<String> {
    match strip(e) {
        Expr::Path(p) => p.path.segments.iter().map(|s| s.ident.to_string()).collect(),
        _ => vec![],
    }
}
fn ident_of(e: &Expr) -> Option<String> {
    let p = path_of(e);
    if p.len() == 1 {
        Some(p[0].clone())
    } else {
        None
    }
}
fn last_ident(t: &Type) -> Option<String> {
    match t {
        Type::Path(p) => p.path.segments.last().map(|s| s.ident.to_string()),
        _ => None,
    }
}
fn first_type_arg(t: &Type) -> Option<&Type> {
    if let Type::Path(p) = t {
        if let syn::PathArguments::AngleBracketed(a) = &p.path.segments.last()?.arguments {
            for x in &a.args {
                if let syn::GenericArgument::Type(ty) = x {
                    return Some(ty);
                }
            }
        }
    }
    None
}

fn ty_of(t: &Type) -> R<Ty> {
    match last_ident(t).as_deref() {
        Some("GenericArray") | Some("Self") => Ok(Ty::Arr),
        Some("Vec") => Ok(Ty::VecT),
        Some("Box") => match first_type_arg(t) {
            Some(Type::Slice(_)) => Ok(Ty::BoxSlice),
            Some(inner) if last_ident(inner).as_deref() == Some("GenericArray") => Ok(Ty::BoxArr),
            _ => Err("Box of an unexpected type".into()),
        },
        Some("Result") => match first_type_arg(t).map(ty_of) {
            Some(Ok(Ty::BoxArr)) => Ok(Ty::ResBoxArr),
            Some(Ok(Ty::Arr)) => Ok(Ty::ResArr),
            _ => Err("Result of an unexpected type".into()),
        },
        _ => Err("unexpected type".into()),
    }
}

struct Cx {
    arg: String,
    arg_ty: Ty,
    ret: Ty,
}

fn is_n_usize(e: &Expr) -> bool {
    path_of(e) == ["N", "USIZE"]
}

impl Cx {
    fn expr(&self, e: &Expr, want: Option<Ty>) -> R<(String, Ty)> {
        let e = strip(e);
        if let Some(v) = ident_of(e) {
            if v == self.arg {
                return Ok(("HArg".into(), self.arg_ty));
            }
            return Err(format!("unknown variable {}", v));
        }
        match e {
            Expr::Cast(c) => {
                let (x, t) = self.expr(&c.expr, None)?;
                if !matches!(t, Ty::RawThin | Ty::RawFat) || !matches!(&*c.ty, Type::Ptr(_)) {
                    return Err("cast of a non-pointer".into());
                }
                Ok((format!("(HCast {})", x), Ty::RawThin))
            }
            Expr::Call(c) => {
                let p = path_of(&c.func);
                let ps: Vec<&str> = p.iter().map(|s| s.as_str()).collect();
                let args: Vec<&Expr> = c.args.iter().collect();
                match (ps.as_slice(), args.len()) {
                    (["Box", "into_raw"], 1) => {
                        let (x, t) = self.expr(args[0], None)?;
                        match t {
                            Ty::BoxArr => Ok((format!("(HBoxIntoRaw {})", x), Ty::RawThin)),
                            Ty::BoxSlice => Ok((format!("(HBoxIntoRaw {})", x), Ty::RawFat)),
                            _ => Err("Box::into_raw of a non-box".into()),
                        }
                    }
                    ([.., "slice_from_raw_parts_mut"], 2) => {
                        let (x, t) = self.expr(args[0], None)?;
                        if t != Ty::RawThin || !is_n_usize(args[1]) {
                            return Err("slice_from_raw_parts_mut of something other than (thin pointer, N::USIZE)".into());
                        }
                        Ok((format!("(HSliceFromRawParts {})", x), Ty::RawFat))
                    }
                    (["Box", "from_raw"], 1) => {
                        let (x, t) = self.expr(args[0], None)?;
                        match (t, want) {
                            (Ty::RawFat, None) | (Ty::RawFat, Some(Ty::BoxSlice)) => Ok((format!("(HBoxFromRaw false {})", x), Ty::BoxSlice)),
                            (Ty::RawThin, Some(Ty::BoxArr)) => Ok((format!("(HBoxFromRaw true {})", x), Ty::BoxArr)),
                            _ => Err("Box::from_raw whose result type does not follow from the pointer and the declared type".into()),
                        }
                    }
                    (["Vec", "from"], 1) => {
                        let (x, t) = self.expr(args[0], None)?;
                        if t != Ty::BoxSlice {
                            return Err("Vec::from of something other than Box<[T]>".into());
                        }
                        Ok((format!("(HVecFromBoxSlice {})", x), Ty::VecT))
                    }
                    (["Box", "new"], 1) => {
                        let (x, t) = self.expr(args[0], None)?;
                        if t != Ty::Arr {
                            return Err("Box::new of something other than the array".into());
                        }
                        Ok((format!("(HBoxNew {})", x), Ty::BoxArr))
                    }
                    (["Box", "from"], 1) => {
                        // Box::<[T]>::from(value)
                        let (x, t) = self.expr(args[0], None)?;
                        if t != Ty::Arr {
                            return Err("Box::<[T]>::from of something other than the array".into());
                        }
                        Ok((format!("(HCrate \"From<GenericArray> for Box<[T]>\" {})", x), Ty::BoxSlice))
                    }
                    (["Self", "try_from_boxed_slice"], 1) | (["GenericArray", "try_from_boxed_slice"], 1) => {
                        let (x, t) = self.expr(args[0], None)?;
                        if t != Ty::BoxSlice {
                            return Err("try_from_boxed_slice of something other than Box<[T]>".into());
                        }
                        Ok((format!("(HCrate \"try_from_boxed_slice\" {})", x), Ty::ResBoxArr))
                    }
                    (["GenericArray", "into_vec"], 1) => {
                        let (x, t) = self.expr(args[0], None)?;
                        if t != Ty::BoxArr {
                            return Err("into_vec of something other than the boxed array".into());
                        }
                        Ok((format!("(HCrate \"into_vec\" {})", x), Ty::VecT))
                    }
                    _ => Err(format!("unrecognised call {}", p.join("::"))),
                }
            }
            Expr::MethodCall(m) => {
                let (x, t) = self.expr(&m.receiver, None)?;
                match (m.method.to_string().as_str(), t, m.args.len()) {
                    ("into_boxed_slice", Ty::VecT, 0) => Ok((format!("(HVecIntoBoxedSlice {})", x), Ty::BoxSlice)),
                    ("into_boxed_slice", Ty::BoxArr, 0) => Ok((format!("(HCrate \"into_boxed_slice\" {})", x), Ty::BoxSlice)),
                    ("into_vec", Ty::BoxArr, 0) => Ok((format!("(HCrate \"into_vec\" {})", x), Ty::VecT)),
                    ("into", Ty::BoxSlice, 0) if want == Some(Ty::VecT) => Ok((format!("(HVecFromBoxSlice {})", x), Ty::VecT)),
                    ("try_into", Ty::VecT, 0) if want == Some(Ty::ResArr) => Ok((format!("(HCrate \"TryFrom<Vec<T>>\" {})", x), Ty::ResArr)),
                    (name, _, _) => Err(format!("unrecognised method call .{}()", name)),
                }
            }
            _ => Err("unrecognised expression".into()),
        }
    }
}

fn return_err(e: &Expr) -> bool {
    let inner = match strip(e) {
        Expr::Return(r) => match &r.expr {
            Some(x) => x,
            None => return false,
        },
        _ => return false,
    };
    if let Expr::Call(c) = strip(inner) {
        path_of(&c.func).last().map(|s| s == "Err").unwrap_or(false) && c.args.len() == 1 && path_of(&c.args[0]).last().map(|s| s == "LengthError").unwrap_or(false)
    } else {
        false
    }
}

/// `if arg.len() != N::USIZE { return Err(LengthError); }`
fn is_guard(s: &Stmt, arg: &str) -> bool {
    if let Stmt::Expr(Expr::If(i), _) = s {
        if i.else_branch.is_some() || i.then_branch.stmts.len() != 1 {
            return false;
        }
        let body_ok = matches!(&i.then_branch.stmts[0], Stmt::Expr(x, _) if return_err(x));
        let cond_ok = match strip(&i.cond) {
            Expr::Binary(b) if matches!(b.op, BinOp::Ne(_)) => match strip(&b.left) {
                Expr::MethodCall(m) if m.method == "len" && m.args.is_empty() => ident_of(&m.receiver).as_deref() == Some(arg) && is_n_usize(&b.right),
                _ => false,
            },
            _ => false,
        };
        return body_ok && cond_ok;
    }
    false
}

/// unsafe { let mut destination = GenericArray::uninit(); let mut builder = IntrusiveArrayBuilder::new(&mut destination);
///          builder.extend(v.into_iter()); Ok({ builder.finish(); IntrusiveArrayBuilder::array_assume_init(destination) }) }
fn is_extend_from_vec(s: &Stmt, arg: &str) -> bool {
    let stmts = match s {
        Stmt::Expr(Expr::Unsafe(u), None) => &u.block.stmts,
        _ => return false,
    };
    if stmts.len() != 4 {
        return false;
    }
    let let_name = |s: &Stmt, f: &dyn Fn(&Expr) -> bool| -> Option<String> {
        if let Stmt::Local(l) = s {
            if let (Pat::Ident(i), Some(init)) = (&l.pat, &l.init) {
                if f(&init.expr) {
                    return Some(i.ident.to_string());
                }
            }
        }
        None
    };
    let dest = match let_name(&stmts[0], &|e| matches!(strip(e), Expr::Call(c) if path_of(&c.func) == ["GenericArray", "uninit"] && c.args.is_empty())) {
        Some(d) => d,
        None => return false,
    };
    let d2 = dest.clone();
    let builder = match let_name(&stmts[1], &move |e| match strip(e) {
        Expr::Call(c) if path_of(&c.func) == ["IntrusiveArrayBuilder", "new"] && c.args.len() == 1 => matches!(strip(&c.args[0]), Expr::Reference(r) if r.mutability.is_some() && ident_of(&r.expr).as_deref() == Some(d2.as_str())),
        _ => false,
    }) {
        Some(b) => b,
        None => return false,
    };
    let ext = match &stmts[2] {
        Stmt::Expr(Expr::MethodCall(m), Some(_)) if m.method == "extend" && m.args.len() == 1 && ident_of(&m.receiver).as_deref() == Some(builder.as_str()) => match strip(&m.args[0]) {
            Expr::MethodCall(it) => it.method == "into_iter" && it.args.is_empty() && ident_of(&it.receiver).as_deref() == Some(arg),
            _ => false,
        },
        _ => false,
    };
    let fin = match &stmts[3] {
        Stmt::Expr(Expr::Call(c), None) if path_of(&c.func) == ["Ok"] && c.args.len() == 1 => match &c.args[0] {
            Expr::Block(b) if b.block.stmts.len() == 2 => {
                let f = matches!(&b.block.stmts[0], Stmt::Expr(Expr::MethodCall(m), Some(_)) if m.method == "finish" && ident_of(&m.receiver).as_deref() == Some(builder.as_str()));
                let a = matches!(&b.block.stmts[1], Stmt::Expr(Expr::Call(c2), None) if path_of(&c2.func) == ["IntrusiveArrayBuilder", "array_assume_init"] && c2.args.len() == 1 && ident_of(&c2.args[0]).as_deref() == Some(dest.as_str()));
                f && a
            }
            _ => false,
        },
        _ => false,
    };
    ext && fin
}

fn body(f: &syn::ImplItemFn, self_ty: Option<Ty>) -> R<String> {
    // the single argument
    let (arg, arg_ty) = match f.sig.inputs.first().ok_or("no argument")? {
        syn::FnArg::Receiver(r) => ("self".to_string(), if r.colon_token.is_some() { ty_of(&r.ty)? } else { self_ty.ok_or("untyped self")? }),
        syn::FnArg::Typed(t) => (
            match &*t.pat {
                Pat::Ident(i) => i.ident.to_string(),
                _ => return Err("argument pattern".into()),
            },
            ty_of(&t.ty)?,
        ),
    };
    if f.sig.inputs.len() != 1 {
        return Err("more than one argument".into());
    }
    let ret = match &f.sig.output {
        syn::ReturnType::Type(_, t) => match last_ident(t).as_deref() {
            Some("Self") => self_ty.ok_or("Self outside an impl with a known type")?,
            Some("Result") => match first_type_arg(t) {
                Some(inner) if last_ident(inner).as_deref() == Some("Self") => Ty::ResArr,
                _ => ty_of(t)?,
            },
            _ => ty_of(t)?,
        },
        _ => return Err("no return type".into()),
    };
    let cx = Cx { arg: arg.clone(), arg_ty, ret };
    let stmts = &f.block.stmts;
    let (guard, rest) = match stmts.split_first() {
        Some((s, r)) if is_guard(s, &arg) => (true, r),
        _ => (false, &stmts[..]),
    };
    if rest.len() != 1 {
        return Err("body is not [length guard;] one expression".into());
    }
    if guard && is_extend_from_vec(&rest[0], &arg) && arg_ty == Ty::VecT && ret == Ty::ResArr {
        return Ok("mkBody true true (HExtendFromVec HArg)".into());
    }
    let tail = match &rest[0] {
        Stmt::Expr(e, None) => e,
        _ => return Err("body does not end in an expression".into()),
    };
    // Ok(expr) ?
    if let Expr::Call(c) = strip(tail) {
        if path_of(&c.func) == ["Ok"] && c.args.len() == 1 {
            let inner_want = match cx.ret {
                Ty::ResBoxArr => Ty::BoxArr,
                Ty::ResArr => Ty::Arr,
                _ => return Err("Ok(..) in a function that does not return a Result".into()),
            };
            let (x, t) = cx.expr(&c.args[0], Some(inner_want))?;
            if t != inner_want {
                return Err("Ok(..) of an unexpected type".into());
            }
            return Ok(format!("mkBody {} true {}", guard, x));
        }
    }
    if guard {
        return Err("a length guard whose success path is not Ok(..)".into());
    }
    let (x, t) = cx.expr(tail, Some(cx.ret))?;
    if t != cx.ret {
        return Err("result of an unexpected type".into());
    }
    Ok(format!("mkBody false false {}", x))
}

pub fn gen_heap(files: &BTreeMap<String, syn::File>, out: &mut String) {
    out.push_str("From Coq Require Import String ZArith List.\nFrom GA Require Import Base HeapProg.\nImport ListNotations.\nLocal Open Scope string_scope.\n\n");
    let Some(file) = files.get("impl_alloc.rs") else {
        println!("ERROR GenHeap.v *: impl_alloc.rs missing");
        return;
    };
    let mut rows: Vec<String> = vec![];
    let mut seen: Vec<String> = vec![];
    for it in &file.items {
        let Item::Impl(im) = it else { continue };
        let self_ty = ty_of(&im.self_ty).ok();
        let tr = im.trait_.as_ref().map(|t| t.1.segments.last().unwrap());
        for ii in &im.items {
            let ImplItem::Fn(f) = ii else { continue };
            let fname = f.sig.ident.to_string();
            let key: Option<String> = match tr {
                None if self_ty == Some(Ty::Arr) && ["into_boxed_slice", "into_vec", "try_from_boxed_slice", "try_from_vec"].contains(&fname.as_str()) => Some(fname.clone()),
                Some(seg) if seg.ident == "TryFrom" && self_ty == Some(Ty::Arr) && fname == "try_from" => {
                    // TryFrom<Vec<T>> / TryFrom<Box<[T]>>
                    let a = match &seg.arguments {
                        syn::PathArguments::AngleBracketed(a) => a.args.first().and_then(|x| if let syn::GenericArgument::Type(t) = x { ty_of(t).ok() } else { None }),
                        _ => None,
                    };
                    match a {
                        Some(Ty::VecT) => Some("TryFrom<Vec<T>>".into()),
                        Some(Ty::BoxSlice) => Some("TryFrom<Box<[T]>>".into()),
                        _ => None,
                    }
                }
                Some(seg) if seg.ident == "From" && fname == "from" => match self_ty {
                    Some(Ty::BoxSlice) => Some("From<GenericArray> for Box<[T]>".into()),
                    Some(Ty::VecT) => Some("From<GenericArray> for Vec<T>".into()),
                    _ => None,
                },
                _ => None,
            };
            let Some(key) = key else { continue };
            seen.push(key.clone());
            match body(f, self_ty) {
                Ok(b) => rows.push(format!("(\"{}\", {})", key, b)),
                Err(e) => println!("ERROR GenHeap.v {}: {}", key, e),
            }
        }
    }
    for want in ["into_boxed_slice", "into_vec", "try_from_boxed_slice", "try_from_vec", "TryFrom<Vec<T>>", "TryFrom<Box<[T]>>", "From<GenericArray> for Box<[T]>", "From<GenericArray> for Vec<T>"] {
        if !seen.iter().any(|s| s == want) {
            println!("ERROR GenHeap.v {}: not found", want);
        }
    }
    writeln!(out, "Definition gen_heap_table : list (string * hbody) :=\n  [{}].", rows.join(";\n   ")).unwrap();
    // default_boxed: `Box::<GenericArray<T, N>>::generate(|_| T::default())`
    let r: R<()> = (|| {
        for it in &file.items {
            let Item::Impl(im) = it else { continue };
            if im.trait_.is_some() || ty_of(&im.self_ty).ok() != Some(Ty::Arr) {
                continue;
            }
            for ii in &im.items {
                let ImplItem::Fn(f) = ii else { continue };
                if f.sig.ident != "default_boxed" {
                    continue;
                }
                if f.block.stmts.len() != 1 {
                    return Err("default_boxed is not one expression".to_string());
                }
                let e = match &f.block.stmts[0] {
                    Stmt::Expr(e, None) => e,
                    _ => return Err("default_boxed is not one expression".to_string()),
                };
                let ok = match strip(e) {
                    Expr::Call(c) if path_of(&c.func) == ["Box", "generate"] && c.args.len() == 1 => match strip(&c.args[0]) {
                        Expr::Closure(cl) if cl.inputs.len() == 1 && matches!(cl.inputs[0], Pat::Wild(_)) => match strip(&cl.body) {
                            Expr::Call(d) => path_of(&d.func) == ["T", "default"] && d.args.is_empty(),
                            _ => false,
                        },
                        _ => false,
                    },
                    _ => false,
                };
                if !ok {
                    return Err("default_boxed is not Box::<..>::generate(|_| T::default())".to_string());
                }
                return Ok(());
            }
        }
        Err("default_boxed not found".to_string())
    })();
    match r {
        Ok(()) => writeln!(out, "\n(* GenericArray::default_boxed = Box::<GenericArray<T, N>>::generate(|_| T::default()): the boxed generate\n   (GenPipe.gen_boxed_generate) with T::default as the caller's function *)\nDefinition gen_default_boxed_is_generate : bool := true.").unwrap(),
        Err(e) => println!("ERROR GenHeap.v default_boxed: {}", e),
    }
}

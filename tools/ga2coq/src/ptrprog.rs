//! T3 for src/sequence.rs: the bodies of Lengthen / Shorten / Split / Concat / Remove as
//! typed straight-line pointer programs (coq/theories/PtrProg.v).
//!
//! Fail-closed: every construct outside the recognised forms is an error for that function.
use std::collections::BTreeMap;
use std::fmt::Write as _;
use syn::{BinOp, Expr, GenericArgument, ImplItem, Item, Pat, PathArguments, Stmt, Type};

type R<T> = Result<T, String>;

#[derive(Clone, Debug, PartialEq)]
enum Len {
    N,
    K,
    Add1(Box<Len>),
    Sub1(Box<Len>),
    Diff(Box<Len>, Box<Len>),
    Sum(Box<Len>, Box<Len>),
}
impl Len {
    fn coq(&self) -> String {
        match self {
            Len::N => "LN".into(),
            Len::K => "LK".into(),
            Len::Add1(a) => format!("(LAdd1 {})", a.coq()),
            Len::Sub1(a) => format!("(LSub1 {})", a.coq()),
            Len::Diff(a, b) => format!("(LDiff {} {})", a.coq(), b.coq()),
            Len::Sum(a, b) => format!("(LSum {} {})", a.coq(), b.coq()),
        }
    }
}

#[derive(Clone, Debug, PartialEq)]
enum Ty {
    Elem,               // T
    Arr(Len),           // GenericArray<T, len>
    Ref(Len),           // &GenericArray<T, len> / &mut ..
    Usize,
    Tuple(Vec<Ty>),
}

#[derive(Clone, Debug, PartialEq)]
enum Pointee {
    T,
    Arr(Len),
    Infer,
}
impl Pointee {
    fn coq(&self) -> R<String> {
        match self {
            Pointee::T => Ok("PT".into()),
            Pointee::Arr(l) => Ok(format!("(PArr {})", l.coq())),
            Pointee::Infer => Err("pointee type left to inference could not be resolved".into()),
        }
    }
}

#[derive(Clone, Debug)]
enum Var {
    Val(Ty),            // an argument or a value read from memory
    Block(Len),         // MaybeUninit<GenericArray<T,len>> / ManuallyDrop<GenericArray<T,len>> / the borrowed source
    Ptr(Pointee),
}

struct Cx<'a> {
    n_param: String,
    k_param: Option<String>,
    self_ty: Ty,
    assoc: &'a BTreeMap<String, Type>,
    vars: BTreeMap<String, Var>,
    expected: BTreeMap<String, Ty>, // types of the variables of the returned tuple, from the return type
    stmts: Vec<String>,
    mu: std::collections::BTreeSet<String>, // the MaybeUninit blocks (as_mut_ptr is typed at the array)
}

fn last_seg(p: &syn::Path) -> &syn::PathSegment {
    p.segments.last().unwrap()
}
fn type_args(s: &syn::PathSegment) -> Vec<&Type> {
    match &s.arguments {
        PathArguments::AngleBracketed(a) => a.args.iter().filter_map(|x| if let GenericArgument::Type(t) = x { Some(t) } else { None }).collect(),
        _ => vec![],
    }
}
fn strip(e: &Expr) -> &Expr {
    match e {
        Expr::Paren(p) => strip(&p.expr),
        Expr::Group(g) => strip(&g.expr),
        _ => e,
    }
}
fn ident_of(e: &Expr) -> Option<String> {
    match strip(e) {
        Expr::Path(p) if p.path.segments.len() == 1 && p.qself.is_none() => Some(p.path.segments[0].ident.to_string()),
        _ => None,
    }
}

impl<'a> Cx<'a> {
    fn len_of(&self, t: &Type) -> R<Len> {
        match t {
            Type::Path(p) if p.qself.is_none() => {
                let s = last_seg(&p.path);
                let name = s.ident.to_string();
                let args = type_args(s);
                if p.path.segments.len() == 1 && args.is_empty() {
                    if name == self.n_param {
                        return Ok(Len::N);
                    }
                    if Some(&name) == self.k_param.as_ref() {
                        return Ok(Len::K);
                    }
                    return Err(format!("unknown length parameter {}", name));
                }
                match (name.as_str(), args.len()) {
                    ("Add1", 1) => Ok(Len::Add1(Box::new(self.len_of(args[0])?))),
                    ("Sub1", 1) => Ok(Len::Sub1(Box::new(self.len_of(args[0])?))),
                    ("Diff", 2) => Ok(Len::Diff(Box::new(self.len_of(args[0])?), Box::new(self.len_of(args[1])?))),
                    ("Sum", 2) => Ok(Len::Sum(Box::new(self.len_of(args[0])?), Box::new(self.len_of(args[1])?))),
                    _ => Err(format!("unrecognised type-level length {}", name)),
                }
            }
            _ => Err("unrecognised type-level length".into()),
        }
    }

    fn ty_of(&self, t: &Type) -> R<Ty> {
        match t {
            Type::Tuple(tu) => Ok(Ty::Tuple(tu.elems.iter().map(|e| self.ty_of(e)).collect::<R<Vec<_>>>()?)),
            Type::Paren(p) => self.ty_of(&p.elem),
            Type::Reference(r) => match self.ty_of(&r.elem)? {
                Ty::Arr(l) => Ok(Ty::Ref(l)),
                _ => Err("reference to something other than a GenericArray".into()),
            },
            Type::Path(p) if p.qself.is_none() => {
                let segs: Vec<String> = p.path.segments.iter().map(|s| s.ident.to_string()).collect();
                if segs == ["T"] {
                    return Ok(Ty::Elem);
                }
                if segs == ["usize"] {
                    return Ok(Ty::Usize);
                }
                if segs == ["Self"] {
                    return Ok(self.self_ty.clone());
                }
                if segs.len() == 2 && segs[0] == "Self" {
                    return match self.assoc.get(&segs[1]) {
                        Some(a) => self.ty_of(a),
                        None => Err(format!("unknown associated type Self::{}", segs[1])),
                    };
                }
                let s = last_seg(&p.path);
                if s.ident == "GenericArray" {
                    let a = type_args(s);
                    if a.len() == 2 {
                        if let Type::Path(tp) = a[0] {
                            if tp.path.is_ident("T") {
                                return Ok(Ty::Arr(self.len_of(a[1])?));
                            }
                        }
                    }
                }
                Err(format!("unrecognised type {}", segs.join("::")))
            }
            _ => Err("unrecognised type".into()),
        }
    }

    fn pointee_of(&self, t: &Type) -> R<Pointee> {
        match t {
            Type::Infer(_) => Ok(Pointee::Infer),
            _ => match self.ty_of(t)? {
                Ty::Elem => Ok(Pointee::T),
                Ty::Arr(l) => Ok(Pointee::Arr(l)),
                _ => Err("pointer to something other than T or a GenericArray".into()),
            },
        }
    }

    /// the pointee named by a cast target `*mut X` / `*const X` / `_`
    fn cast_target(&self, t: &Type) -> R<Pointee> {
        match t {
            Type::Ptr(p) => self.pointee_of(&p.elem),
            Type::Infer(_) => Ok(Pointee::Infer),
            _ => Err("cast to a non-pointer type".into()),
        }
    }

    // ---- usize expressions
    fn zx(&self, e: &Expr) -> R<String> {
        match strip(e) {
            Expr::Lit(l) => match &l.lit {
                syn::Lit::Int(i) => Ok(format!("(ZLit {})", i.base10_digits())),
                _ => Err("non-integer literal".into()),
            },
            Expr::Binary(b) => match b.op {
                BinOp::Sub(_) => Ok(format!("(ZSub {} {})", self.zx(&b.left)?, self.zx(&b.right)?)),
                _ => Err("usize operator other than `-`".into()),
            },
            Expr::Path(p) if p.qself.is_none() => {
                let segs = &p.path.segments;
                if segs.len() == 1 {
                    let name = segs[0].ident.to_string();
                    return match self.vars.get(&name) {
                        Some(Var::Val(Ty::Usize)) => Ok(format!("(ZVar \"{}\")", name)),
                        _ => Err(format!("{} is not a usize variable", name)),
                    };
                }
                if segs.len() == 2 && segs[1].ident == "USIZE" {
                    // X::USIZE or Sub1::<N>::USIZE
                    let mut tp = syn::TypePath { qself: None, path: syn::Path { leading_colon: None, segments: Default::default() } };
                    tp.path.segments.push(segs[0].clone());
                    let l = self.len_of(&Type::Path(tp))?;
                    return Ok(format!("(ZLen {})", l.coq()));
                }
                Err("unrecognised usize path".into())
            }
            _ => Err("unrecognised usize expression".into()),
        }
    }

    fn cx(&self, e: &Expr) -> R<String> {
        match strip(e) {
            Expr::Binary(b) => match b.op {
                BinOp::Or(_) => Ok(format!("(COr {} {})", self.cx(&b.left)?, self.cx(&b.right)?)),
                BinOp::Ge(_) => Ok(format!("(CGe {} {})", self.zx(&b.left)?, self.zx(&b.right)?)),
                BinOp::Lt(_) => Ok(format!("(CLt {} {})", self.zx(&b.left)?, self.zx(&b.right)?)),
                BinOp::Eq(_) => Ok(format!("(CEq {} {})", self.zx(&b.left)?, self.zx(&b.right)?)),
                _ => Err("unrecognised comparison".into()),
            },
            _ => Err("unrecognised condition".into()),
        }
    }

    // ---- pointer expressions: (coq text without the final pointee resolved, pointee)
    fn px(&self, e: &Expr) -> R<(String, Pointee)> {
        match strip(e) {
            Expr::Cast(c) => {
                let (inner, _) = self.px(&c.expr)?;
                let pt = self.cast_target(&c.ty)?;
                Ok((inner, pt)).map(|(i, pt)| (format!("CAST[{}]", i), pt))
            }
            Expr::MethodCall(m) => {
                let name = m.method.to_string();
                match name.as_str() {
                    "as_ptr" | "as_mut_ptr" if m.args.is_empty() => {
                        let recv = ident_of(&m.receiver).ok_or("as_ptr on a non-variable")?;
                        match self.vars.get(&recv) {
                            // MaybeUninit<GenericArray<T,l>>::as_mut_ptr(): *mut GenericArray<T,l>
                            Some(Var::Block(l)) if self.mu.contains(&recv) => Ok((format!("(PBase \"{}\" (PArr {}))", recv, l.coq()), Pointee::Arr(l.clone()))),
                            // ManuallyDrop<GenericArray> / &GenericArray deref to the slice: *const T
                            Some(Var::Block(_)) => Ok((format!("(PBase \"{}\" PT)", recv), Pointee::T)),
                            _ => Err(format!("as_ptr on {} which is not a block", recv)),
                        }
                    }
                    "add" | "offset" if m.args.len() == 1 => {
                        let (p, pt) = self.px(&m.receiver)?;
                        let p = self.close(p, &pt)?;
                        Ok((format!("(PAdd {} {})", p, self.zx(&m.args[0])?), pt))
                    }
                    _ => Err(format!("unrecognised pointer method {}", name)),
                }
            }
            Expr::Path(_) => {
                let v = ident_of(e).ok_or("unrecognised pointer path")?;
                match self.vars.get(&v) {
                    Some(Var::Ptr(pt)) => Ok((format!("(PVar \"{}\")", v), pt.clone())),
                    _ => Err(format!("{} is not a pointer variable", v)),
                }
            }
            _ => Err("unrecognised pointer expression".into()),
        }
    }

    /// finish a pointer expression whose outermost cast is pending
    fn close(&self, text: String, pt: &Pointee) -> R<String> {
        if let Some(inner) = text.strip_prefix("CAST[").and_then(|s| s.strip_suffix(']')) {
            let inner = self.close_inner(inner.to_string())?;
            Ok(format!("(PCast {} {})", inner, pt.coq()?))
        } else {
            Ok(text)
        }
    }
    fn close_inner(&self, text: String) -> R<String> {
        if text.starts_with("CAST[") {
            Err("nested casts".into())
        } else {
            Ok(text)
        }
    }

    /// pointer expression with an expected pointee used when the source says `_`
    fn px_expect(&self, e: &Expr, want: Option<Pointee>) -> R<(String, Pointee)> {
        let (t, pt) = self.px(e)?;
        let pt = match (pt, want) {
            (Pointee::Infer, Some(w)) => w,
            (Pointee::Infer, None) => return Err("pointee type left to inference could not be resolved".into()),
            (p, Some(w)) if p != w => return Err("pointer type does not match the value it is used with".into()),
            (p, _) => p,
        };
        Ok((self.close(t, &pt)?, pt))
    }
}

fn pointee_for(ty: &Ty) -> R<Pointee> {
    match ty {
        Ty::Elem => Ok(Pointee::T),
        Ty::Arr(l) => Ok(Pointee::Arr(l.clone())),
        Ty::Ref(l) => Ok(Pointee::Arr(l.clone())),
        _ => Err("value of a type that cannot be behind a pointer here".into()),
    }
}

fn call_path(e: &Expr) -> Option<Vec<String>> {
    if let Expr::Call(c) = strip(e) {
        if let Expr::Path(p) = strip(&c.func) {
            return Some(p.path.segments.iter().map(|s| s.ident.to_string()).collect());
        }
    }
    None
}
fn call_args(e: &Expr) -> Vec<&Expr> {
    if let Expr::Call(c) = strip(e) {
        c.args.iter().collect()
    } else {
        vec![]
    }
}
fn ends_with(p: &[String], suffix: &[&str]) -> bool {
    p.len() >= suffix.len() && p[p.len() - suffix.len()..].iter().zip(suffix).all(|(a, b)| a == b)
}

fn flatten_stmts<'b>(b: &'b syn::Block, out: &mut Vec<&'b Stmt>) {
    for (i, s) in b.stmts.iter().enumerate() {
        let last = i + 1 == b.stmts.len();
        match s {
            Stmt::Expr(Expr::Unsafe(u), None) if last => flatten_stmts(&u.block, out),
            Stmt::Expr(Expr::Unsafe(u), Some(_)) => flatten_stmts(&u.block, out),
            _ => out.push(s),
        }
    }
}

struct FnOut {
    requires: Vec<Len>,
    stmts: Vec<String>,
    ret: Vec<String>,
}

#[allow(clippy::too_many_arguments)]
fn translate_fn(im: &syn::ItemImpl, f: &syn::ImplItemFn, n_param: &str, k_param: Option<&str>, assoc: &BTreeMap<String, Type>) -> R<FnOut> {
    let mut cx = Cx {
        n_param: n_param.to_string(),
        k_param: k_param.map(|s| s.to_string()),
        self_ty: Ty::Arr(Len::N),
        assoc,
        vars: BTreeMap::new(),
        expected: BTreeMap::new(),
        stmts: vec![],
        mu: Default::default(),
    };
    // Self
    cx.self_ty = match &*im.self_ty {
        Type::Reference(r) => match cx.ty_of(&r.elem)? {
            Ty::Arr(Len::N) => Ty::Ref(Len::N),
            _ => return Err("Self is a reference to an unexpected type".into()),
        },
        t => match cx.ty_of(t)? {
            Ty::Arr(Len::N) => Ty::Arr(Len::N),
            _ => return Err("Self is not GenericArray<T, N>".into()),
        },
    };
    // the lengths the impl needs: every length in an associated type
    let mut requires: Vec<Len> = vec![];
    for a in assoc.values() {
        match cx.ty_of(a)? {
            Ty::Arr(l) | Ty::Ref(l) => {
                if !requires.contains(&l) && l != Len::N && l != Len::K {
                    requires.push(l)
                }
            }
            _ => return Err("associated type of an unexpected shape".into()),
        }
    }
    // arguments
    for a in &f.sig.inputs {
        match a {
            syn::FnArg::Receiver(r) => {
                if r.reference.is_some() || r.colon_token.is_some() {
                    return Err("receiver is not plain `self`".into());
                }
                match cx.self_ty.clone() {
                    Ty::Ref(l) => {
                        cx.vars.insert("self".into(), Var::Block(l));
                        cx.stmts.push("SBorrow \"self\" \"self\"".into());
                    }
                    t => {
                        cx.vars.insert("self".into(), Var::Val(t));
                    }
                }
            }
            syn::FnArg::Typed(t) => {
                let name = match &*t.pat {
                    Pat::Ident(i) => i.ident.to_string(),
                    _ => return Err("argument pattern".into()),
                };
                let ty = cx.ty_of(&t.ty)?;
                cx.vars.insert(name, Var::Val(ty));
            }
        }
    }
    let ret_ty = match &f.sig.output {
        syn::ReturnType::Type(_, t) => cx.ty_of(t)?,
        _ => return Err("no return type".into()),
    };
    let mut stmts: Vec<&Stmt> = vec![];
    flatten_stmts(&f.block, &mut stmts);
    let (tail, body) = match stmts.split_last() {
        Some((Stmt::Expr(e, None), b)) => (e, b),
        _ => return Err("body does not end in an expression".into()),
    };
    // the variables of the returned tuple get their types from the declared return type
    if let (Expr::Tuple(tu), Ty::Tuple(tys)) = (strip(tail), &ret_ty) {
        if tu.elems.len() != tys.len() {
            return Err("returned tuple and return type differ in arity".into());
        }
        for (e, t) in tu.elems.iter().zip(tys) {
            if let Some(v) = ident_of(e) {
                cx.expected.insert(v, t.clone());
            }
        }
    }
    for s in body {
        stmt(&mut cx, s)?;
    }
    // the tail
    let mut ret = vec![];
    match strip(tail) {
        Expr::Tuple(tu) => {
            let tys = match &ret_ty {
                Ty::Tuple(t) => t.clone(),
                _ => return Err("tuple returned for a non-tuple type".into()),
            };
            for (e, t) in tu.elems.iter().zip(&tys) {
                ret.push(ret_item(&cx, e, t)?);
            }
        }
        e => ret.push(ret_item(&cx, e, &ret_ty)?),
    }
    Ok(FnOut { requires, stmts: cx.stmts, ret })
}

fn ret_item(cx: &Cx, e: &Expr, want: &Ty) -> R<String> {
    if let Some(v) = ident_of(e) {
        return match cx.vars.get(&v) {
            Some(Var::Val(t)) if t == want => Ok(format!("RVar \"{}\"", v)),
            Some(Var::Val(_)) => Err(format!("returned variable {} has a type other than the declared one", v)),
            _ => Err(format!("returned variable {} is not a value", v)),
        };
    }
    match strip(e) {
        Expr::MethodCall(m) if m.method == "assume_init" && m.args.is_empty() => {
            let b = ident_of(&m.receiver).ok_or("assume_init on a non-variable")?;
            match (cx.vars.get(&b), want) {
                (Some(Var::Block(l)), Ty::Arr(w)) if cx.mu.contains(&b) && l == w => Ok(format!("RAssumeInit \"{}\"", b)),
                _ => Err("assume_init of an unexpected type".into()),
            }
        }
        Expr::MethodCall(m) if ident_of(&m.receiver).as_deref() == Some("self") => {
            // unsafe { self.callee(args..) }: arguments must be the function's own, in order
            for a in &m.args {
                if ident_of(a).is_none() {
                    return Err("tail call with a non-variable argument".into());
                }
            }
            Ok(format!("RTail \"{}\"", m.method))
        }
        Expr::Call(_) => {
            let p = call_path(e).unwrap_or_default();
            if ends_with(&p, &["transmute_copy"]) {
                let args = call_args(e);
                if args.len() != 1 {
                    return Err("transmute_copy arity".into());
                }
                let b = match strip(args[0]) {
                    Expr::Reference(r) => ident_of(&r.expr).ok_or("transmute_copy of a non-variable")?,
                    _ => return Err("transmute_copy argument is not a reference".into()),
                };
                match (cx.vars.get(&b), want) {
                    (Some(Var::Block(_)), Ty::Arr(w)) => Ok(format!("RTransmuteCopy \"{}\" {}", b, w.coq())),
                    _ => Err("transmute_copy of an unexpected type".into()),
                }
            } else {
                Err("unrecognised call in the result".into())
            }
        }
        _ => Err("unrecognised result expression".into()),
    }
}

fn stmt(cx: &mut Cx, s: &Stmt) -> R<()> {
    match s {
        Stmt::Local(l) => {
            let (name, decl_ty) = match &l.pat {
                Pat::Ident(i) => (i.ident.to_string(), None),
                Pat::Type(pt) => match &*pt.pat {
                    Pat::Ident(i) => (i.ident.to_string(), Some(&*pt.ty)),
                    _ => return Err("let pattern".into()),
                },
                _ => return Err("let pattern".into()),
            };
            let init = l.init.as_ref().ok_or("let without initialiser")?;
            if init.diverge.is_some() {
                return Err("let-else".into());
            }
            let e = strip(&init.expr);
            // MaybeUninit::uninit()
            if let Some(p) = call_path(e) {
                if ends_with(&p, &["MaybeUninit", "uninit"]) && call_args(e).is_empty() {
                    let t = decl_ty.ok_or("MaybeUninit::uninit() without a declared type")?;
                    let inner = match t {
                        Type::Path(tp) if last_seg(&tp.path).ident == "MaybeUninit" => {
                            let a = type_args(last_seg(&tp.path));
                            if a.len() != 1 {
                                return Err("MaybeUninit arity".into());
                            }
                            cx.ty_of(a[0])?
                        }
                        _ => return Err("declared type is not MaybeUninit<..>".into()),
                    };
                    let len = match inner {
                        Ty::Arr(l) => l,
                        _ => return Err("MaybeUninit of something other than a GenericArray".into()),
                    };
                    cx.stmts.push(format!("SUninit \"{}\" {}", name, len.coq()));
                    cx.vars.insert(name.clone(), Var::Block(len));
                    cx.mu.insert(name);
                    return Ok(());
                }
                if ends_with(&p, &["ManuallyDrop", "new"]) {
                    let a = call_args(e);
                    let v = a.first().and_then(|x| ident_of(x)).ok_or("ManuallyDrop::new of a non-variable")?;
                    let len = match cx.vars.get(&v) {
                        Some(Var::Val(Ty::Arr(l))) => l.clone(),
                        _ => return Err("ManuallyDrop::new of something other than an owned array".into()),
                    };
                    cx.stmts.push(format!("SManuallyDrop \"{}\" \"{}\"", name, v));
                    cx.vars.insert(name, Var::Block(len));
                    return Ok(());
                }
                if ends_with(&p, &["ptr", "read"]) {
                    let a = call_args(e);
                    if a.len() != 1 {
                        return Err("ptr::read arity".into());
                    }
                    let want = cx.expected.get(&name).cloned();
                    let want_pt = match &want {
                        Some(t) => Some(pointee_for(t)?),
                        None => None,
                    };
                    let (p, pt) = cx.px_expect(a[0], want_pt)?;
                    let ty = match pt {
                        Pointee::T => Ty::Elem,
                        Pointee::Arr(l) => Ty::Arr(l),
                        Pointee::Infer => unreachable!(),
                    };
                    cx.stmts.push(format!("SRead \"{}\" {}", name, p));
                    cx.vars.insert(name, Var::Val(ty));
                    return Ok(());
                }
            }
            // &*p / &mut *p
            if let Expr::Reference(r) = e {
                if let Expr::Unary(u) = strip(&r.expr) {
                    if matches!(u.op, syn::UnOp::Deref(_)) {
                        let want = cx.expected.get(&name).cloned();
                        let want_pt = match &want {
                            Some(Ty::Ref(l)) => Some(Pointee::Arr(l.clone())),
                            Some(_) => return Err("reference where the return type has none".into()),
                            None => None,
                        };
                        let (p, pt) = cx.px_expect(&u.expr, want_pt)?;
                        let l = match pt {
                            Pointee::Arr(l) => l,
                            _ => return Err("reference to something other than a GenericArray".into()),
                        };
                        cx.stmts.push(format!("SRef \"{}\" {}", name, p));
                        cx.vars.insert(name, Var::Val(Ty::Ref(l)));
                        return Ok(());
                    }
                }
            }
            // a pointer
            let want = match decl_ty {
                Some(Type::Ptr(p)) => Some(cx.pointee_of(&p.elem)?),
                Some(_) => return Err("declared type of a let is not a pointer".into()),
                None => None,
            };
            let (p, pt) = cx.px_expect(e, want)?;
            cx.stmts.push(format!("SLetPtr \"{}\" {}", name, p));
            cx.vars.insert(name, Var::Ptr(pt));
            Ok(())
        }
        Stmt::Expr(e, _) => {
            let e = strip(e);
            if let Some(p) = call_path(e) {
                let a = call_args(e);
                if ends_with(&p, &["ptr", "write"]) && a.len() == 2 {
                    let v = ident_of(a[1]).ok_or("ptr::write of a non-variable")?;
                    let ty = match cx.vars.get(&v) {
                        Some(Var::Val(t)) => t.clone(),
                        _ => return Err("ptr::write of a non-value".into()),
                    };
                    let (ptxt, _) = cx.px_expect(a[0], Some(pointee_for(&ty)?))?;
                    cx.stmts.push(format!("SWrite {} \"{}\"", ptxt, v));
                    return Ok(());
                }
                if ends_with(&p, &["ptr", "copy"]) && a.len() == 3 {
                    let (s, _) = cx.px_expect(a[0], None)?;
                    let (d, _) = cx.px_expect(a[1], None)?;
                    cx.stmts.push(format!("SCopy {} {} {}", s, d, cx.zx(a[2])?));
                    return Ok(());
                }
                return Err(format!("unrecognised call {}", p.join("::")));
            }
            match e {
                Expr::MethodCall(m) if m.method == "swap" && m.args.len() == 2 => {
                    let b = ident_of(&m.receiver).ok_or("swap on a non-variable")?;
                    match cx.vars.get(&b) {
                        Some(Var::Block(_)) if !cx.mu.contains(&b) => {}
                        _ => return Err("swap on something other than the owned array".into()),
                    }
                    cx.stmts.push(format!("SSwap \"{}\" {} {}", b, cx.zx(&m.args[0])?, cx.zx(&m.args[1])?));
                    Ok(())
                }
                Expr::If(i) if i.else_branch.is_none() => {
                    // if c { core::hint::unreachable_unchecked(); }
                    let ok = i.then_branch.stmts.len() == 1
                        && match &i.then_branch.stmts[0] {
                            Stmt::Expr(x, _) => call_path(x).map(|p| ends_with(&p, &["unreachable_unchecked"])).unwrap_or(false),
                            _ => false,
                        };
                    if !ok {
                        return Err("`if` whose body is not unreachable_unchecked()".into());
                    }
                    cx.stmts.push(format!("SUnreachableIf {}", cx.cx(&i.cond)?));
                    Ok(())
                }
                _ => Err("unrecognised statement".into()),
            }
        }
        Stmt::Macro(m) => {
            if m.mac.path.is_ident("assert") {
                let args = m
                    .mac
                    .parse_body_with(syn::punctuated::Punctuated::<Expr, syn::Token![,]>::parse_terminated)
                    .map_err(|e| format!("assert! arguments: {}", e))?;
                let c = args.first().ok_or("assert! without a condition")?;
                cx.stmts.push(format!("SAssert {}", cx.cx(c)?));
                Ok(())
            } else {
                Err("unrecognised macro".into())
            }
        }
        _ => Err("unrecognised statement".into()),
    }
}

struct Target {
    name: &'static str,   // Coq name
    tr: &'static str,     // trait
    kind: &'static str,   // "owned" | "ref" | "mut" | "trait" (default method in the trait itself)
    func: &'static str,
}

const TARGETS: &[Target] = &[
    Target { name: "append", tr: "Lengthen", kind: "owned", func: "append" },
    Target { name: "prepend", tr: "Lengthen", kind: "owned", func: "prepend" },
    Target { name: "pop_back", tr: "Shorten", kind: "owned", func: "pop_back" },
    Target { name: "pop_front", tr: "Shorten", kind: "owned", func: "pop_front" },
    Target { name: "split", tr: "Split", kind: "owned", func: "split" },
    Target { name: "split_ref", tr: "Split", kind: "ref", func: "split" },
    Target { name: "split_mut", tr: "Split", kind: "mut", func: "split" },
    Target { name: "concat", tr: "Concat", kind: "owned", func: "concat" },
    Target { name: "remove_unchecked", tr: "Remove", kind: "owned", func: "remove_unchecked" },
    Target { name: "swap_remove_unchecked", tr: "Remove", kind: "owned", func: "swap_remove_unchecked" },
    Target { name: "remove", tr: "Remove", kind: "trait", func: "remove" },
    Target { name: "swap_remove", tr: "Remove", kind: "trait", func: "swap_remove" },
];

fn kind_of(t: &Type) -> &'static str {
    match t {
        Type::Reference(r) if r.mutability.is_some() => "mut",
        Type::Reference(_) => "ref",
        _ => "owned",
    }
}

/// (N parameter, K parameter) of `impl<.., N, K> Tr<T, K> for GenericArray<T, N>`
fn length_params(im: &syn::ItemImpl) -> R<(String, Option<String>)> {
    let inner = match &*im.self_ty {
        Type::Reference(r) => &*r.elem,
        t => t,
    };
    let n = match inner {
        Type::Path(p) if last_seg(&p.path).ident == "GenericArray" => {
            let a = type_args(last_seg(&p.path));
            match a.get(1) {
                Some(Type::Path(tp)) if tp.path.segments.len() == 1 => tp.path.segments[0].ident.to_string(),
                _ => return Err("Self's length is not a parameter".into()),
            }
        }
        _ => return Err("Self is not a GenericArray".into()),
    };
    // the trait's second type argument, if a plain parameter
    let k = im.trait_.as_ref().and_then(|(_, p, _)| {
        let a = type_args(last_seg(p));
        match a.get(1) {
            Some(Type::Path(tp)) if tp.path.segments.len() == 1 => {
                let s = tp.path.segments[0].ident.to_string();
                if s != n {
                    Some(s)
                } else {
                    None
                }
            }
            _ => None,
        }
    });
    Ok((n, k))
}

pub fn gen_seq(files: &BTreeMap<String, syn::File>, out: &mut String) {
    out.push_str("From Coq Require Import String ZArith List.\nFrom GA Require Import Base SeqOps PtrProg.\nImport ListNotations.\nLocal Open Scope string_scope.\n\n");
    let Some(file) = files.get("sequence.rs") else {
        println!("ERROR GenSeq.v *: sequence.rs missing");
        return;
    };
    for t in TARGETS {
        let res: R<FnOut> = (|| {
            if t.kind == "trait" {
                // a provided method of the trait: typed with the impl for GenericArray<T, N>
                let tr = file
                    .items
                    .iter()
                    .find_map(|it| if let Item::Trait(tr) = it { if tr.ident == t.tr { Some(tr) } else { None } } else { None })
                    .ok_or("trait not found")?;
                let f = tr
                    .items
                    .iter()
                    .find_map(|it| if let syn::TraitItem::Fn(f) = it { if f.sig.ident == t.func { Some(f) } else { None } } else { None })
                    .ok_or("method not found")?;
                let body = f.default.as_ref().ok_or("method has no provided body")?;
                let im = file
                    .items
                    .iter()
                    .find_map(|it| {
                        if let Item::Impl(im) = it {
                            if im.trait_.as_ref().map(|x| last_seg(&x.1).ident == t.tr).unwrap_or(false) && kind_of(&im.self_ty) == "owned" {
                                return Some(im);
                            }
                        }
                        None
                    })
                    .ok_or("impl not found")?;
                let (n, k) = length_params(im)?;
                let mut assoc = BTreeMap::new();
                for ii in &im.items {
                    if let ImplItem::Type(ty) = ii {
                        assoc.insert(ty.ident.to_string(), ty.ty.clone());
                    }
                }
                let fake = syn::ImplItemFn { attrs: vec![], vis: syn::Visibility::Inherited, defaultness: None, sig: f.sig.clone(), block: body.clone() };
                // in the trait the length parameter is the trait's own N
                let n_trait = tr
                    .generics
                    .type_params()
                    .nth(1)
                    .map(|p| p.ident.to_string())
                    .unwrap_or(n.clone());
                let _ = n;
                translate_fn(im, &fake, &n_trait, k.as_deref(), &assoc)
            } else {
                let mut found = None;
                for it in &file.items {
                    if let Item::Impl(im) = it {
                        if im.trait_.as_ref().map(|x| last_seg(&x.1).ident == t.tr).unwrap_or(false) && kind_of(&im.self_ty) == t.kind {
                            for ii in &im.items {
                                if let ImplItem::Fn(f) = ii {
                                    if f.sig.ident == t.func {
                                        if found.is_some() {
                                            return Err("more than one definition".to_string());
                                        }
                                        found = Some((im, f));
                                    }
                                }
                            }
                        }
                    }
                }
                let (im, f) = found.ok_or("definition not found")?;
                let (n, k) = length_params(im)?;
                let mut assoc = BTreeMap::new();
                for ii in &im.items {
                    if let ImplItem::Type(ty) = ii {
                        assoc.insert(ty.ident.to_string(), ty.ty.clone());
                    }
                }
                translate_fn(im, f, &n, k.as_deref(), &assoc)
            }
        })();
        match res {
            Ok(o) => {
                writeln!(
                    out,
                    "Definition gen_{} : prog := mkProg\n  [{}]\n  [{}]\n  [{}].\n",
                    t.name,
                    o.requires.iter().map(|l| l.coq()).collect::<Vec<_>>().join("; "),
                    o.stmts.join(";\n   "),
                    o.ret.join("; ")
                )
                .unwrap();
            }
            Err(e) => println!("ERROR GenSeq.v {}: {}", t.name, e),
        }
    }
}

//! T3 for the closure-running bodies of src/lib.rs (generate, map, fold, inverted_zip,
//! inverted_zip2) and the boxed generate of src/impl_alloc.rs: each body becomes a `fnprog`
//! of coq/theories/Pipe.v -- the sources iterated in lockstep, the closure body statement by
//! statement, the sink.  Fail-closed.
use std::collections::BTreeMap;
use std::fmt::Write as _;
use syn::{BinOp, Expr, ImplItem, Item, Pat, Stmt};

type R<T> = Result<T, String>;

fn strip(e: &Expr) -> &Expr {
    match e {
        Expr::Paren(p) => strip(&p.expr),
        Expr::Group(g) => strip(&g.expr),
        _ => e,
    }
}
fn ident_of(e: &Expr) -> Option<String> {
    match strip(e) {
        Expr::Path(p) if p.path.segments.len() == 1 && p.qself.is_none() => Some(p.path.segments[0].ident.to_string()),
        _ => None,
    }
}
fn call_path(e: &Expr) -> Option<Vec<String>> {
    if let Expr::Call(c) = strip(e) {
        if let Expr::Path(p) = strip(&c.func) {
            return Some(p.path.segments.iter().map(|s| s.ident.to_string()).collect());
        }
    }
    None
}
fn call_args(e: &Expr) -> Vec<&Expr> {
    if let Expr::Call(c) = strip(e) {
        c.args.iter().collect()
    } else {
        vec![]
    }
}
fn ends_with(p: &[String], suffix: &[&str]) -> bool {
    p.len() >= suffix.len() && p[p.len() - suffix.len()..].iter().zip(suffix).all(|(a, b)| a == b)
}
fn pat_ident(p: &Pat) -> Option<String> {
    match p {
        Pat::Ident(i) => Some(i.ident.to_string()),
        _ => None,
    }
}
fn pat_tuple(p: &Pat) -> Option<Vec<String>> {
    match p {
        Pat::Tuple(t) => t.elems.iter().map(pat_ident).collect(),
        Pat::Paren(pp) => pat_tuple(&pp.pat),
        _ => None,
    }
}

#[derive(Clone, Debug)]
enum Local {
    Consumer(usize),         // ArrayConsumer over argument k
    NoDrop(usize),           // ManuallyDrop over argument k
    Uninit,                  // the destination array / box
    Builder,                 // IntrusiveArrayBuilder over the destination
    SlotIter(usize, String), // consumer's slot iterator, with its position variable
    DestIter(String),        // builder's slot iterator, with its position variable
    Pos,                     // a position variable
    Remaining(bool, String), // the live window of a by-value iterator (walked from the back?), its position variable
}

struct Ctx {
    frame: std::cell::RefCell<(String, String)>, // (how the destination is obtained, how it is handed back)
    args: Vec<String>, // argument names in declaration order, `self` first; the caller's function excluded
    fname: String,     // the caller's function parameter
    locals: BTreeMap<String, Local>,
}

#[derive(Clone, Debug)]
enum Src {
    Consumer(usize, String),
    NoDrop(usize),
    OwnedSeq(usize),
    Dest(String),
    Enumerate,
    IterBack(usize, String),
}
impl Src {
    fn coq(&self) -> String {
        match self {
            Src::Consumer(a, p) => format!("KConsumer {} \"{}\"", a, p),
            Src::NoDrop(a) => format!("KNoDrop {}", a),
            Src::OwnedSeq(a) => format!("KOwnedSeq {}", a),
            Src::Dest(p) => format!("KDest \"{}\"", p),
            Src::Enumerate => "KEnumerate".into(),
            Src::IterBack(a, p) => format!("KIterBack {} \"{}\"", a, p),
        }
    }
}

impl Ctx {
    fn arg_index(&self, e: &Expr) -> Option<usize> {
        let n = ident_of(e)?;
        self.args.iter().position(|a| *a == n)
    }

    /// the iterator chain: a list of sources in pattern order
    fn chain(&self, e: &Expr) -> R<Vec<Src>> {
        match strip(e) {
            Expr::Path(_) => {
                let v = ident_of(e).ok_or("unrecognised iterator")?;
                match self.locals.get(&v) {
                    Some(Local::SlotIter(a, p)) => Ok(vec![Src::Consumer(*a, p.clone())]),
                    Some(Local::DestIter(p)) => Ok(vec![Src::Dest(p.clone())]),
                    _ => match self.arg_index(e) {
                        Some(a) => Ok(vec![Src::OwnedSeq(a)]),
                        None => Err(format!("{} is not an iterator of this body", v)),
                    },
                }
            }
            Expr::MethodCall(m) => match m.method.to_string().as_str() {
                "zip" if m.args.len() == 1 => {
                    let mut l = self.chain(&m.receiver)?;
                    let r = self.chain(&m.args[0])?;
                    if l.len() != 1 || r.len() != 1 {
                        return Err("nested zip".into());
                    }
                    l.extend(r);
                    Ok(l)
                }
                "iter" if m.args.is_empty() => {
                    let v = ident_of(&m.receiver).ok_or("iter() on a non-variable")?;
                    match self.locals.get(&v) {
                        Some(Local::NoDrop(a)) => Ok(vec![Src::NoDrop(*a)]),
                        Some(Local::Remaining(false, p)) => Ok(vec![Src::Consumer(0, p.clone())]),
                        Some(Local::Remaining(true, p)) => Ok(vec![Src::IterBack(0, p.clone())]),
                        _ => Err(format!("iter() on {} which is not a ManuallyDrop'd argument", v)),
                    }
                }
                // an argument (any sequence) iterated by value
                "into_iter" if m.args.is_empty() => match self.arg_index(&m.receiver) {
                    Some(a) => Ok(vec![Src::OwnedSeq(a)]),
                    None => Err("into_iter() of something that is not an argument".into()),
                },
                "enumerate" if m.args.is_empty() => {
                    let inner = self.chain(&m.receiver)?;
                    let mut v = vec![Src::Enumerate];
                    v.extend(inner);
                    Ok(v)
                }
                other => Err(format!("unrecognised iterator adaptor {}", other)),
            },
            _ => Err("unrecognised iterator expression".into()),
        }
    }

    fn atom(&self, e: &Expr) -> R<String> {
        if let Some(v) = ident_of(e) {
            return Ok(format!("AVar \"{}\"", v));
        }
        if let Some(p) = call_path(e) {
            if ends_with(&p, &["ptr", "read"]) {
                let a = call_args(e);
                if a.len() == 1 {
                    if let Some(r) = ident_of(a[0]) {
                        return Ok(format!("ARead \"{}\"", r));
                    }
                }
            }
        }
        Err("unrecognised argument of the caller's function".into())
    }

    fn cexp(&self, e: &Expr) -> R<String> {
        if let Some(p) = call_path(e) {
            if p.len() == 1 && p[0] == self.fname {
                let args = call_args(e).iter().map(|a| self.atom(a)).collect::<R<Vec<_>>>()?;
                return Ok(format!("(XCallF [{}])", args.join("; ")));
            }
        }
        Ok(format!("(XAtom ({}))", self.atom(e)?))
    }

    fn closure_stmt(&self, s: &Stmt, last: bool, out: &mut Vec<String>) -> R<()> {
        match s {
            Stmt::Local(l) => {
                let v = pat_ident(&l.pat).ok_or("closure let pattern")?;
                let init = l.init.as_ref().ok_or("closure let without initialiser")?;
                let p = call_path(&init.expr).unwrap_or_default();
                if ends_with(&p, &["ptr", "read"]) {
                    let a = call_args(&init.expr);
                    if a.len() == 1 {
                        if let Some(r) = ident_of(a[0]) {
                            out.push(format!("CRead \"{}\" \"{}\"", v, r));
                            return Ok(());
                        }
                    }
                }
                Err("closure let that is not `let v = ptr::read(r)`".into())
            }
            Stmt::Expr(e, semi) => {
                let e = strip(e);
                match e {
                    // *p += 1
                    Expr::Binary(b) if matches!(b.op, BinOp::AddAssign(_)) => {
                        let p = deref_ident(&b.left).ok_or("`+=` on something other than *position")?;
                        match strip(&b.right) {
                            Expr::Lit(l) if matches!(&l.lit, syn::Lit::Int(i) if i.base10_digits() == "1") => {}
                            _ => return Err("position advanced by something other than 1".into()),
                        }
                        self.pos(&p)?;
                        out.push(format!("CBump \"{}\"", p));
                        Ok(())
                    }
                    // *p -= 1
                    Expr::Binary(b) if matches!(b.op, BinOp::SubAssign(_)) => {
                        let p = deref_ident(&b.left).ok_or("`-=` on something other than *position")?;
                        match strip(&b.right) {
                            Expr::Lit(l) if matches!(&l.lit, syn::Lit::Int(i) if i.base10_digits() == "1") => {}
                            _ => return Err("position decreased by something other than 1".into()),
                        }
                        self.pos(&p)?;
                        out.push(format!("CDec \"{}\"", p));
                        Ok(())
                    }
                    // *d = *s
                    Expr::Assign(a) => {
                        let d = deref_ident(&a.left).ok_or("assignment to something other than *position")?;
                        let s0 = deref_ident(&a.right).ok_or("position assigned from something other than *position")?;
                        self.pos(&d)?;
                        self.pos(&s0)?;
                        out.push(format!("CSetPos \"{}\" \"{}\"", d, s0));
                        Ok(())
                    }
                    // dst.write(e)
                    Expr::MethodCall(m) if m.method == "write" && m.args.len() == 1 && semi.is_some() => {
                        let d = ident_of(&m.receiver).ok_or("write on a non-variable")?;
                        out.push(format!("CWrite \"{}\" {}", d, self.cexp(&m.args[0])?));
                        Ok(())
                    }
                    _ if last && semi.is_none() => {
                        out.push(format!("CRet {}", self.cexp(e)?));
                        Ok(())
                    }
                    _ => Err("unrecognised closure statement".into()),
                }
            }
            _ => Err("unrecognised closure statement".into()),
        }
    }

    fn pos(&self, p: &str) -> R<()> {
        match self.locals.get(p) {
            Some(Local::Pos) => Ok(()),
            _ => Err(format!("{} is not a position variable", p)),
        }
    }

    fn closure(&self, e: &Expr, srcs: &[Src], fold_acc: bool) -> R<(Vec<String>, Vec<String>, Option<String>)> {
        // the caller's function handed to the adaptor as it is: `.map(f)` is `.map(|item| f(item))`,
        // `.fold(init, f)` is `.fold(init, |acc, item| f(acc, item))`
        if ident_of(e).as_deref() == Some(self.fname.as_str()) {
            if srcs.len() != 1 {
                return Err("the caller's function passed directly over a zipped chain".into());
            }
            let item = "item".to_string();
            return Ok(if fold_acc {
                (vec![item], vec!["CRet (XCallF [AVar \"acc\"; AVar \"item\"])".to_string()], Some("acc".to_string()))
            } else {
                (vec![item], vec!["CRet (XCallF [AVar \"item\"])".to_string()], None)
            });
        }
        let c = match strip(e) {
            Expr::Closure(c) => c,
            _ => return Err("expected a closure".into()),
        };
        let mut acc = None;
        let names: Vec<String> = if fold_acc {
            if c.inputs.len() != 2 {
                return Err("fold closure arity".into());
            }
            acc = Some(pat_ident(&c.inputs[0]).ok_or("fold accumulator pattern")?);
            match pat_ident(&c.inputs[1]) {
                Some(n) => vec![n],
                None => pat_tuple(&c.inputs[1]).ok_or("fold closure pattern")?,
            }
        } else {
            if c.inputs.len() != 1 {
                return Err("closure arity".into());
            }
            match pat_ident(&c.inputs[0]) {
                Some(n) => vec![n],
                None => pat_tuple(&c.inputs[0]).ok_or("closure pattern")?,
            }
        };
        if names.len() != srcs.len() {
            return Err("closure pattern does not match the iterator chain".into());
        }
        let mut body = vec![];
        match strip(&c.body) {
            Expr::Block(b) => {
                let n = b.block.stmts.len();
                for (i, s) in b.block.stmts.iter().enumerate() {
                    self.closure_stmt(s, i + 1 == n, &mut body)?;
                }
            }
            other => body.push(format!("CRet {}", self.cexp(other)?)),
        }
        Ok((names, body, acc))
    }
}

fn deref_ident(e: &Expr) -> Option<String> {
    match strip(e) {
        Expr::Unary(u) if matches!(u.op, syn::UnOp::Deref(_)) => ident_of(&u.expr),
        _ => None,
    }
}

fn pipe_text(names: &[String], srcs: &[Src], body: &[String], sink: &str) -> String {
    let s: Vec<String> = names.iter().zip(srcs).map(|(n, s)| format!("(\"{}\", {})", n, s.coq())).collect();
    format!("(mkPipe\n    [{}]\n    [{}]\n    {})", s.join("; "), body.join("; "), sink)
}

/// one straight block: lets, then the pipeline expression (or the builder loop and its ending)
fn block(cx: &mut Ctx, stmts: &[Stmt]) -> R<String> {
    let mut i = 0;
    while i < stmts.len() {
        let s = &stmts[i];
        let last = i + 1 == stmts.len();
        match s {
            Stmt::Local(l) => {
                let init = l.init.as_ref().ok_or("let without initialiser")?;
                let e = strip(&init.expr);
                // let (it, pos) = x.iter_position();
                if let Some(names) = pat_tuple(&l.pat) {
                    if let Expr::MethodCall(m) = e {
                        if m.method == "iter_position" && m.args.is_empty() && names.len() == 2 {
                            let x = ident_of(&m.receiver).ok_or("iter_position on a non-variable")?;
                            match cx.locals.get(&x).cloned() {
                                Some(Local::Consumer(a)) => {
                                    cx.locals.insert(names[0].clone(), Local::SlotIter(a, names[1].clone()));
                                }
                                Some(Local::Builder) => {
                                    cx.locals.insert(names[0].clone(), Local::DestIter(names[1].clone()));
                                }
                                _ => return Err(format!("iter_position on {}", x)),
                            }
                            cx.locals.insert(names[1].clone(), Local::Pos);
                            i += 1;
                            continue;
                        }
                    }
                    return Err("unrecognised tuple let".into());
                }
                let name = match &l.pat {
                    Pat::Ident(p) => p.ident.to_string(),
                    Pat::Type(t) => pat_ident(&t.pat).ok_or("let pattern")?,
                    _ => return Err("let pattern".into()),
                };
                let p = call_path(e).unwrap_or_default();
                let a = call_args(e);
                if ends_with(&p, &["ArrayConsumer", "new"]) && a.len() == 1 {
                    let k = cx.arg_index(a[0]).ok_or("ArrayConsumer::new of a non-argument")?;
                    cx.locals.insert(name, Local::Consumer(k));
                } else if ends_with(&p, &["ManuallyDrop", "new"]) && a.len() == 1 {
                    let k = cx.arg_index(a[0]).ok_or("ManuallyDrop::new of a non-argument")?;
                    cx.locals.insert(name, Local::NoDrop(k));
                } else if (ends_with(&p, &["uninit"]) || ends_with(&p, &["new_uninit"])) && a.is_empty() {
                    cx.frame.borrow_mut().0 = p.join("::");
                    cx.locals.insert(name, Local::Uninit);
                } else if ends_with(&p, &["IntrusiveArrayBuilder", "new"]) && a.len() == 1 {
                    // &mut array  or  &mut *array.as_mut_ptr()
                    let target = match strip(a[0]) {
                        Expr::Reference(r) if r.mutability.is_some() => match strip(&r.expr) {
                            Expr::Unary(u) if matches!(u.op, syn::UnOp::Deref(_)) => match strip(&u.expr) {
                                Expr::MethodCall(m) if m.method == "as_mut_ptr" => ident_of(&m.receiver),
                                _ => None,
                            },
                            other => ident_of(other),
                        },
                        _ => None,
                    };
                    match target.and_then(|t| cx.locals.get(&t).cloned()) {
                        Some(Local::Uninit) => {}
                        _ => return Err("builder over something other than the uninitialised destination".into()),
                    }
                    cx.locals.insert(name, Local::Builder);
                } else {
                    return Err(format!("unrecognised let {}", name));
                }
            }
            // { let (builder_iter, position) = builder.iter_position(); builder_iter.enumerate().for_each(..); }
            Stmt::Expr(Expr::Block(b), _) => {
                let inner: Vec<Stmt> = b.block.stmts.clone();
                let txt = block(cx, &inner)?;
                // what follows must be exactly: builder.finish(); <assume_init of the destination>
                let rest = &stmts[i + 1..];
                if rest.len() != 2 {
                    return Err("unexpected statements after the fill loop".into());
                }
                let ok_finish = match &rest[0] {
                    Stmt::Expr(Expr::MethodCall(m), Some(_)) => m.method == "finish" && matches!(ident_of(&m.receiver).and_then(|v| cx.locals.get(&v).cloned()), Some(Local::Builder)),
                    _ => false,
                };
                let ok_init = match &rest[1] {
                    Stmt::Expr(e, None) => {
                        let p = call_path(e).unwrap_or_default();
                        // the ending, with the callee of its argument when that is a call: Box::from_raw(Box::into_raw(array).cast())
                        let inner = call_args(e).first().map(|a| match strip(a) {
                            Expr::MethodCall(m) => format!("{}(..).{}()", call_path(&m.receiver).unwrap_or_default().join("::"), m.method),
                            other => ident_of(other).unwrap_or_default(),
                        });
                        cx.frame.borrow_mut().1 = format!("{}({})", p.join("::"), inner.unwrap_or_default());
                        ends_with(&p, &["IntrusiveArrayBuilder", "array_assume_init"]) || ends_with(&p, &["Box", "from_raw"])
                    }
                    _ => false,
                };
                if !ok_finish || !ok_init {
                    return Err("the fill loop is not followed by builder.finish() and the assume_init of the destination".into());
                }
                return Ok(txt);
            }
            Stmt::Expr(e, semi) => {
                if !last {
                    return Err("statement after the pipeline".into());
                }
                let e = strip(e);
                // FromIterator::from_iter(chain.map(closure))
                if let Some(p) = call_path(e) {
                    if ends_with(&p, &["FromIterator", "from_iter"]) && semi.is_none() {
                        let a = call_args(e);
                        if let [Expr::MethodCall(m)] = a.iter().map(|x| strip(x)).collect::<Vec<_>>()[..] {
                            if m.method == "map" && m.args.len() == 1 {
                                let srcs = cx.chain(&m.receiver)?;
                                let (names, body, _) = cx.closure(&m.args[0], &srcs, false)?;
                                return Ok(pipe_text(&names, &srcs, &body, "SFromIter"));
                            }
                        }
                        return Err("from_iter over something other than chain.map(closure)".into());
                    }
                }
                if let Expr::MethodCall(m) = e {
                    if (m.method == "fold" || m.method == "rfold") && m.args.len() == 2 && semi.is_none() {
                        if ident_of(&m.args[0]).as_deref() != Some("init") {
                            return Err("fold does not start from `init`".into());
                        }
                        let srcs = cx.chain(&m.receiver)?;
                        let (names, body, acc) = cx.closure(&m.args[1], &srcs, true)?;
                        return Ok(pipe_text(&names, &srcs, &body, &format!("(SFold \"{}\")", acc.unwrap())));
                    }
                    if m.method == "for_each" && m.args.len() == 1 {
                        let srcs = cx.chain(&m.receiver)?;
                        let (names, body, _) = cx.closure(&m.args[0], &srcs, false)?;
                        return Ok(pipe_text(&names, &srcs, &body, "SForEach"));
                    }
                }
                return Err("unrecognised pipeline expression".into());
            }
            _ => return Err("unrecognised statement".into()),
        }
        i += 1;
    }
    Err("body without a pipeline".into())
}

fn unwrap_unsafe(b: &syn::Block) -> Vec<Stmt> {
    if b.stmts.len() == 1 {
        if let Stmt::Expr(Expr::Unsafe(u), None) = &b.stmts[0] {
            return unwrap_unsafe(&u.block);
        }
    }
    b.stmts.iter().filter(|s| !matches!(s, Stmt::Item(syn::Item::Use(_)))).cloned().collect()
}

fn nd_cond(e: &Expr, tparams: &BTreeMap<String, usize>) -> R<String> {
    match strip(e) {
        Expr::Binary(b) if matches!(b.op, BinOp::Or(_)) => Ok(format!("(NdOr {} {})", nd_cond(&b.left, tparams)?, nd_cond(&b.right, tparams)?)),
        Expr::Call(c) => {
            if let Expr::Path(p) = strip(&c.func) {
                let last = p.path.segments.last().unwrap();
                if last.ident == "needs_drop" && c.args.is_empty() {
                    if let syn::PathArguments::AngleBracketed(a) = &last.arguments {
                        if let Some(syn::GenericArgument::Type(syn::Type::Path(tp))) = a.args.first() {
                            if let Some(id) = tp.path.get_ident() {
                                return match tparams.get(&id.to_string()) {
                                    Some(k) => Ok(format!("(NdArg {})", k)),
                                    None => Err(format!("needs_drop of a type that is not an argument's element type: {}", id)),
                                };
                            }
                        }
                    }
                }
            }
            Err("unrecognised condition".into())
        }
        _ => Err("unrecognised condition".into()),
    }
}

fn translate(f: &syn::ImplItemFn, self_elem: &str) -> R<(String, (String, String))> {
    // arguments: self first, then the sequence arguments; the closure parameter is the one named f
    let mut args = vec![];
    let mut tparams: BTreeMap<String, usize> = BTreeMap::new();
    let mut fname = None;
    for a in &f.sig.inputs {
        match a {
            syn::FnArg::Receiver(_) => {
                tparams.insert(self_elem.to_string(), args.len());
                args.push("self".to_string());
            }
            syn::FnArg::Typed(t) => {
                let n = pat_ident(&t.pat).ok_or("argument pattern")?;
                let is_fn = matches!(&*t.ty, syn::Type::Path(p) if p.path.is_ident("F"));
                if is_fn {
                    fname = Some(n);
                } else if n == "init" {
                    // fold's accumulator seed: not a sequence
                } else {
                    // the element type of a sequence argument: GenericArray<B, ..> or a type parameter
                    // bounded by GenericSequence<B, ..>
                    if let Some(el) = elem_type_of(&t.ty, f) {
                        tparams.insert(el, args.len());
                    }
                    args.push(n);
                }
            }
        }
    }
    let fname = fname.ok_or("no caller-supplied function parameter of type F")?;
    let mut cx = Ctx { frame: Default::default(), args, fname, locals: BTreeMap::new() };
    let stmts = unwrap_unsafe(&f.block);
    if stmts.len() == 1 {
        if let Stmt::Expr(Expr::If(i), None) = &stmts[0] {
            let c = nd_cond(&i.cond, &tparams)?;
            let t = block(&mut cx, &unwrap_unsafe(&i.then_branch))?;
            let e = match &i.else_branch {
                Some((_, e)) => match strip(e) {
                    Expr::Block(b) => {
                        cx.locals.clear();
                        block(&mut cx, &unwrap_unsafe(&b.block))?
                    }
                    _ => return Err("else branch is not a block".into()),
                },
                None => return Err("needs_drop test without else".into()),
            };
            return Ok((format!("FIfNeedsDrop {}\n  {}\n  {}", c, t, e), cx.frame.borrow().clone()));
        }
    }
    let t = block(&mut cx, &stmts)?;
    let fr = cx.frame.borrow().clone();
    Ok((format!("FPipe {}", t), fr))
}

/// element type parameter of a sequence-typed argument
fn elem_type_of(t: &syn::Type, f: &syn::ImplItemFn) -> Option<String> {
    if let syn::Type::Path(p) = t {
        let last = p.path.segments.last()?;
        if last.ident == "GenericArray" {
            if let syn::PathArguments::AngleBracketed(a) = &last.arguments {
                if let Some(syn::GenericArgument::Type(syn::Type::Path(tp))) = a.args.first() {
                    return tp.path.get_ident().map(|i| i.to_string());
                }
            }
        }
        // a type parameter: look for `X: GenericSequence<B, ..>` in the where clause / generics
        if let Some(id) = p.path.get_ident() {
            let name = id.to_string();
            let mut bounds: Vec<&syn::TypeParamBound> = vec![];
            for gp in f.sig.generics.type_params() {
                if gp.ident == name {
                    bounds.extend(gp.bounds.iter());
                }
            }
            if let Some(w) = &f.sig.generics.where_clause {
                for pr in &w.predicates {
                    if let syn::WherePredicate::Type(pt) = pr {
                        if let syn::Type::Path(bp) = &pt.bounded_ty {
                            if bp.path.is_ident(&name) {
                                bounds.extend(pt.bounds.iter());
                            }
                        }
                    }
                }
            }
            for b in bounds {
                if let syn::TypeParamBound::Trait(tb) = b {
                    let last = tb.path.segments.last()?;
                    if last.ident == "GenericSequence" {
                        if let syn::PathArguments::AngleBracketed(a) = &last.arguments {
                            if let Some(syn::GenericArgument::Type(syn::Type::Path(tp))) = a.args.first() {
                                return tp.path.get_ident().map(|i| i.to_string());
                            }
                        }
                    }
                }
            }
        }
    }
    None
}

/// GenericArrayIter::fold / rfold:
///   let ret = unsafe { let GenericArrayIter { ref array, ref mut index, index_back } = self;
///                      let remaining = array.get_unchecked(*index..index_back);
///                      remaining.iter().fold(init, |acc, src| { .. }) };
///   mem::forget(self); ret
fn translate_iter_fold(f: &syn::ImplItemFn, back: bool) -> R<String> {
    let stmts = &f.block.stmts;
    if stmts.len() != 3 {
        return Err("body is not `let ret = unsafe {..}; mem::forget(self); ret`".into());
    }
    let (ret_name, inner) = match &stmts[0] {
        Stmt::Local(l) => {
            let n = pat_ident(&l.pat).ok_or("first let pattern")?;
            let init = &l.init.as_ref().ok_or("first let without initialiser")?.expr;
            match strip(init) {
                Expr::Unsafe(u) => (n, u.block.stmts.clone()),
                _ => return Err("first let is not an unsafe block".into()),
            }
        }
        _ => return Err("first statement".into()),
    };
    let forget_ok = match &stmts[1] {
        Stmt::Expr(e, Some(_)) => call_path(e).map(|p| ends_with(&p, &["mem", "forget"])).unwrap_or(false) && call_args(e).len() == 1 && ident_of(call_args(e)[0]).as_deref() == Some("self"),
        _ => false,
    };
    let ret_ok = matches!(&stmts[2], Stmt::Expr(e, None) if ident_of(e).as_deref() == Some(ret_name.as_str()));
    if !forget_ok || !ret_ok {
        return Err("the fold is not followed by mem::forget(self) and the result".into());
    }
    if inner.len() != 3 {
        return Err("unsafe block is not destructuring; remaining; fold".into());
    }
    // the destructuring: which cursor is borrowed mutably
    let (pos_field, other_field) = if back { ("index_back", "index") } else { ("index", "index_back") };
    match &inner[0] {
        Stmt::Local(l) => {
            let ps = match &l.pat {
                Pat::Struct(ps) => ps,
                _ => return Err("destructuring pattern".into()),
            };
            let mut seen = 0;
            for fp in &ps.fields {
                let name = match &fp.member {
                    syn::Member::Named(n) => n.to_string(),
                    _ => return Err("destructuring member".into()),
                };
                let (by_ref, mutable) = match &*fp.pat {
                    Pat::Ident(i) => (i.by_ref.is_some(), i.mutability.is_some()),
                    _ => return Err("destructuring field pattern".into()),
                };
                if name == "array" {
                    if !by_ref {
                        return Err("`array` is moved out of the iterator".into());
                    }
                    seen += 1;
                } else if name == pos_field {
                    if !(by_ref && mutable) {
                        return Err(format!("`{}` is not bound by `ref mut`: updates would go to a copy", pos_field));
                    }
                    seen += 1;
                } else if name == other_field {
                    if by_ref {
                        return Err(format!("`{}` is bound by reference", other_field));
                    }
                    seen += 1;
                } else {
                    return Err(format!("unknown field {}", name));
                }
            }
            let self_ok = l.init.as_ref().map(|i| ident_of(&i.expr).as_deref() == Some("self")).unwrap_or(false);
            if seen != 3 || !self_ok {
                return Err("destructuring does not bind array, index, index_back of self".into());
            }
        }
        _ => return Err("destructuring statement".into()),
    }
    // let remaining = array.get_unchecked(LO..HI)
    let rem_name = match &inner[1] {
        Stmt::Local(l) => {
            let n = pat_ident(&l.pat).ok_or("remaining pattern")?;
            let init = &l.init.as_ref().ok_or("remaining initialiser")?.expr;
            let ok = match strip(init) {
                Expr::MethodCall(m) if m.method == "get_unchecked" && m.args.len() == 1 && ident_of(&m.receiver).as_deref() == Some("array") => match strip(&m.args[0]) {
                    Expr::Range(r) => {
                        let lo = r.start.as_ref().map(|x| if back { ident_of(x) } else { deref_ident(x) });
                        let hi = r.end.as_ref().map(|x| if back { deref_ident(x) } else { ident_of(x) });
                        matches!(r.limits, syn::RangeLimits::HalfOpen(_)) && lo.flatten().as_deref() == Some("index") && hi.flatten().as_deref() == Some("index_back")
                    }
                    _ => false,
                },
                _ => false,
            };
            if !ok {
                return Err("the window is not array.get_unchecked(index..index_back)".into());
            }
            n
        }
        _ => return Err("window statement".into()),
    };
    let fname = f
        .sig
        .inputs
        .iter()
        .filter_map(|a| match a {
            syn::FnArg::Typed(t) if matches!(&*t.ty, syn::Type::Path(p) if p.path.is_ident("F")) => pat_ident(&t.pat),
            _ => None,
        })
        .next()
        .ok_or("no caller-supplied function parameter")?;
    let mut cx = Ctx { frame: Default::default(), args: vec!["self".into()], fname, locals: BTreeMap::new() };
    cx.locals.insert(pos_field.to_string(), Local::Pos);
    cx.locals.insert(rem_name, Local::Remaining(back, pos_field.to_string()));
    // the walk must be fold for the front cursor, rfold for the back cursor
    if let Stmt::Expr(Expr::MethodCall(m), None) = &inner[2] {
        let want = if back { "rfold" } else { "fold" };
        if m.method != want {
            return Err(format!("the window is walked with {} where {} moves this cursor", m.method, want));
        }
    }
    Ok(format!("FPipe {}", block(&mut cx, &inner[2..])?))
}

/// GenericArrayIter::clone:
///   let mut iter = GenericArrayIter { array: unsafe { ptr::read(&self.array) }, index: 0, index_back: 0 };
///   for (dst, src) in iter.array.as_mut_slice().iter_mut().zip(self.as_slice()) {
///       unsafe { ptr::write(dst, src.clone()) };  iter.index_back += 1; }
///   iter
fn translate_iter_clone(f: &syn::ImplItemFn) -> R<String> {
    let st = &f.block.stmts;
    if st.len() != 3 {
        return Err("body is not `let mut iter = ..; for ..; iter`".into());
    }
    let is_zero = |e: &Expr| matches!(strip(e), Expr::Lit(l) if matches!(&l.lit, syn::Lit::Int(i) if i.base10_digits() == "0"));
    let it = match &st[0] {
        Stmt::Local(l) => {
            let n = pat_ident(&l.pat).ok_or("first let pattern")?;
            let init = &l.init.as_ref().ok_or("first let initialiser")?.expr;
            let sl = match strip(init) {
                Expr::Struct(sl) if sl.path.segments.last().map(|x| x.ident == "GenericArrayIter").unwrap_or(false) => sl,
                _ => return Err("the copy is not a GenericArrayIter struct literal".into()),
            };
            let mut ok = 0;
            for fv in &sl.fields {
                let name = match &fv.member {
                    syn::Member::Named(n) => n.to_string(),
                    _ => return Err("struct literal member".into()),
                };
                match name.as_str() {
                    "index" | "index_back" => {
                        if !is_zero(&fv.expr) {
                            return Err(format!("the copy starts with {} != 0: its Drop would own slots never written", name));
                        }
                        ok += 1;
                    }
                    "array" => {
                        // unsafe { ptr::read(&self.array) }
                        let inner = match strip(&fv.expr) {
                            Expr::Unsafe(u) if u.block.stmts.len() == 1 => match &u.block.stmts[0] {
                                Stmt::Expr(e, None) => e.clone(),
                                _ => return Err("array initialiser".into()),
                            },
                            e => e.clone(),
                        };
                        let p = call_path(&inner).unwrap_or_default();
                        if !ends_with(&p, &["ptr", "read"]) {
                            return Err("array is not initialised by ptr::read(&self.array)".into());
                        }
                        ok += 1;
                    }
                    _ => return Err(format!("unknown field {}", name)),
                }
            }
            if ok != 3 {
                return Err("struct literal does not set array, index, index_back".into());
            }
            n
        }
        _ => return Err("first statement".into()),
    };
    if !matches!(&st[2], Stmt::Expr(e, None) if ident_of(e).as_deref() == Some(it.as_str())) {
        return Err("the copy is not what is returned".into());
    }
    let fl = match &st[1] {
        Stmt::Expr(Expr::ForLoop(fl), _) => fl,
        _ => return Err("second statement is not the for loop".into()),
    };
    // it.array.as_mut_slice().iter_mut().zip(self.as_slice())
    let z = match strip(&fl.expr) {
        Expr::MethodCall(z) if z.method == "zip" && z.args.len() == 1 => z,
        _ => return Err("the loop is not over a zip".into()),
    };
    let field_of = |e: &Expr, var: &str, field: &str| -> bool { matches!(strip(e), Expr::Field(fe) if ident_of(&fe.base).as_deref() == Some(var) && matches!(&fe.member, syn::Member::Named(n) if n == field)) };
    let dst_ok = match strip(&z.receiver) {
        Expr::MethodCall(im) if im.method == "iter_mut" => match strip(&im.receiver) {
            Expr::MethodCall(ms) if ms.method == "as_mut_slice" => field_of(&ms.receiver, &it, "array"),
            _ => false,
        },
        _ => false,
    };
    let src_ok = matches!(strip(&z.args[0]), Expr::MethodCall(a) if a.method == "as_slice" && ident_of(&a.receiver).as_deref() == Some("self"));
    if !dst_ok || !src_ok {
        return Err("zip of something other than the copy's slots (first) and self.as_slice()".into());
    }
    let names = pat_tuple(&fl.pat).ok_or("loop pattern")?;
    if names.len() != 2 {
        return Err("loop pattern arity".into());
    }
    let (dst, src) = (names[0].clone(), names[1].clone());
    let mut body = vec![];
    for s in &fl.body.stmts {
        let e = match s {
            Stmt::Expr(e, Some(_)) => e,
            _ => return Err("loop statement".into()),
        };
        let e = match strip(e) {
            Expr::Unsafe(u) if u.block.stmts.len() == 1 => match &u.block.stmts[0] {
                Stmt::Expr(x, _) => x.clone(),
                _ => return Err("loop statement".into()),
            },
            other => other.clone(),
        };
        if let Some(p) = call_path(&e) {
            if ends_with(&p, &["ptr", "write"]) {
                let a = call_args(&e);
                let d = a.first().and_then(|x| ident_of(x));
                let v = match a.get(1).map(|x| strip(x)) {
                    Some(Expr::MethodCall(c)) if c.method == "clone" && c.args.is_empty() => ident_of(&c.receiver),
                    _ => None,
                };
                if d.as_deref() == Some(dst.as_str()) && v.as_deref() == Some(src.as_str()) {
                    body.push(format!("CWrite \"{}\" (XCallF [AVar \"{}\"])", dst, src));
                    continue;
                }
            }
            return Err("unrecognised call in the loop".into());
        }
        match &e {
            Expr::Binary(b) if matches!(b.op, BinOp::AddAssign(_)) && field_of(&b.left, &it, "index_back") => {
                match strip(&b.right) {
                    Expr::Lit(l) if matches!(&l.lit, syn::Lit::Int(i) if i.base10_digits() == "1") => {}
                    _ => return Err("index_back advanced by something other than 1".into()),
                }
                body.push("CBump \"index_back\"".into());
            }
            _ => return Err("unrecognised loop statement".into()),
        }
    }
    Ok(format!(
        "FPipe (mkPipe\n    [(\"{}\", KDest \"index_back\"); (\"{}\", KOwnedSeq 0)]\n    [{}]\n    SForEach)",
        dst,
        src,
        body.join("; ")
    ))
}

fn find_fn<'a>(file: &'a syn::File, tr: &str, self_pred: impl Fn(&syn::Type) -> bool, name: &str) -> R<&'a syn::ImplItemFn> {
    let mut found = None;
    for it in &file.items {
        if let Item::Impl(im) = it {
            let is_tr = im.trait_.as_ref().map(|x| x.1.segments.last().unwrap().ident == tr).unwrap_or(false);
            if is_tr && self_pred(&im.self_ty) {
                for ii in &im.items {
                    if let ImplItem::Fn(f) = ii {
                        if f.sig.ident == name {
                            if found.is_some() {
                                return Err("more than one definition".into());
                            }
                            found = Some(f);
                        }
                    }
                }
            }
        }
    }
    found.ok_or_else(|| "definition not found".to_string())
}

fn is_ga(t: &syn::Type) -> bool {
    matches!(t, syn::Type::Path(p) if p.path.segments.last().map(|s| s.ident == "GenericArray").unwrap_or(false))
}
fn is_box_ga(t: &syn::Type) -> bool {
    if let syn::Type::Path(p) = t {
        if let Some(s) = p.path.segments.last() {
            if s.ident == "Box" {
                if let syn::PathArguments::AngleBracketed(a) = &s.arguments {
                    if let Some(syn::GenericArgument::Type(inner)) = a.args.first() {
                        return is_ga(inner);
                    }
                }
            }
        }
    }
    false
}

pub fn gen_pipe(files: &BTreeMap<String, syn::File>, out: &mut String) {
    out.push_str("From Coq Require Import String ZArith List.\nFrom GA Require Import Base Pipe.\nImport ListNotations.\nLocal Open Scope string_scope.\n\n");
    let targets: [(&str, &str, &str, &str, bool); 6] = [
        ("generate", "lib.rs", "GenericSequence", "generate", false),
        ("inverted_zip", "lib.rs", "GenericSequence", "inverted_zip", false),
        ("inverted_zip2", "lib.rs", "GenericSequence", "inverted_zip2", false),
        ("map", "lib.rs", "FunctionalSequence", "map", false),
        ("fold", "lib.rs", "FunctionalSequence", "fold", false),
        ("boxed_generate", "impl_alloc.rs", "GenericSequence", "generate", true),
    ];
    for (name, file, tr, func, boxed) in targets {
        let res: R<(String, (String, String))> = (|| {
            let f = files.get(file).ok_or("file missing")?;
            let fun = if boxed { find_fn(f, tr, is_box_ga, func)? } else { find_fn(f, tr, is_ga, func)? };
            translate(fun, "T")
        })();
        match res {
            Ok((t, fr)) => {
                writeln!(out, "Definition gen_{} : fnprog :=\n  {}.\n", name, t).unwrap();
                if func == "generate" {
                    writeln!(out, "(* how the destination of {} is obtained and how it is handed back *)\nDefinition gen_{}_frame : string * string :=\n  (\"{}\", \"{}\").\n", name, name, fr.0, fr.1).unwrap();
                }
            }
            Err(e) => println!("ERROR GenPipe.v {}: {}", name, e),
        }
    }
    // the trait-default inverted_zip of GenericSequence (src/sequence.rs): `self` is any sequence taken by value
    {
        let res: R<(String, (String, String))> = (|| {
            let f = files.get("sequence.rs").ok_or("sequence.rs missing")?;
            let tr = f
                .items
                .iter()
                .find_map(|it| if let Item::Trait(t) = it { if t.ident == "GenericSequence" { Some(t) } else { None } } else { None })
                .ok_or("trait GenericSequence not found")?;
            let m = tr
                .items
                .iter()
                .find_map(|ti| if let syn::TraitItem::Fn(m) = ti { if m.sig.ident == "inverted_zip" { Some(m) } else { None } } else { None })
                .ok_or("default inverted_zip not found")?;
            let body = m.default.as_ref().ok_or("inverted_zip has no default body")?;
            let fake = syn::ImplItemFn { attrs: vec![], vis: syn::Visibility::Inherited, defaultness: None, sig: m.sig.clone(), block: body.clone() };
            translate(&fake, "T")
        })();
        match res {
            Ok((t, _)) => writeln!(out, "Definition gen_default_inverted_zip : fnprog :=\n  {}.\n", t).unwrap(),
            Err(e) => println!("ERROR GenPipe.v default_inverted_zip: {}", e),
        }
    }
    // the other trait defaults: GenericSequence::inverted_zip2 (src/sequence.rs), FunctionalSequence::map / fold
    // (src/functional.rs) -- what `&GenericArray`, `&mut GenericArray` and every other sequence run
    for (name, file, trname, func) in [
        ("default_inverted_zip2", "sequence.rs", "GenericSequence", "inverted_zip2"),
        ("default_map", "functional.rs", "FunctionalSequence", "map"),
        ("default_fold", "functional.rs", "FunctionalSequence", "fold"),
    ] {
        let res: R<(String, (String, String))> = (|| {
            let f = files.get(file).ok_or("file missing")?;
            let tr = f
                .items
                .iter()
                .find_map(|it| if let Item::Trait(t) = it { if t.ident == trname { Some(t) } else { None } } else { None })
                .ok_or("trait not found")?;
            let m = tr
                .items
                .iter()
                .find_map(|ti| if let syn::TraitItem::Fn(m) = ti { if m.sig.ident == func { Some(m) } else { None } } else { None })
                .ok_or("default method not found")?;
            let body = m.default.as_ref().ok_or("no default body")?;
            let fake = syn::ImplItemFn { attrs: vec![], vis: syn::Visibility::Inherited, defaultness: None, sig: m.sig.clone(), block: body.clone() };
            translate(&fake, "T")
        })();
        match res {
            Ok((t, _)) => writeln!(out, "Definition gen_{} : fnprog :=\n  {}.\n", name, t).unwrap(),
            Err(e) => println!("ERROR GenPipe.v {}: {}", name, e),
        }
    }
    // zip is a delegation in both places: (file, receiver, method, arguments) of the single call in its body
    {
        let res: R<Vec<String>> = (|| {
            let mut rows = vec![];
            let lib = files.get("lib.rs").ok_or("lib.rs missing")?;
            let fun = find_fn(lib, "FunctionalSequence", is_ga, "zip")?;
            rows.push(("lib.rs", fun.block.clone()));
            let fu = files.get("functional.rs").ok_or("functional.rs missing")?;
            let tr = fu
                .items
                .iter()
                .find_map(|it| if let Item::Trait(t) = it { if t.ident == "FunctionalSequence" { Some(t) } else { None } } else { None })
                .ok_or("trait FunctionalSequence not found")?;
            let m = tr
                .items
                .iter()
                .find_map(|ti| if let syn::TraitItem::Fn(m) = ti { if m.sig.ident == "zip" { Some(m) } else { None } } else { None })
                .ok_or("default zip not found")?;
            rows.push(("functional.rs", m.default.clone().ok_or("zip has no default body")?));
            let mut out = vec![];
            for (file, b) in rows {
                if b.stmts.len() != 1 {
                    return Err(format!("{}: zip is not a single call", file));
                }
                let Stmt::Expr(e, None) = &b.stmts[0] else { return Err(format!("{}: zip is not a single call", file)) };
                let Expr::MethodCall(m) = strip(e) else { return Err(format!("{}: zip is not a method call", file)) };
                let recv = ident_of(&m.receiver).ok_or("receiver")?;
                let args: Vec<String> = m.args.iter().map(|a| ident_of(a).unwrap_or_else(|| "?".into())).collect();
                out.push(format!("(\"{}\", \"{}\", \"{}\", [{}])", file, recv, m.method, args.iter().map(|a| format!("\"{}\"", a)).collect::<Vec<_>>().join("; ")));
            }
            Ok(out)
        })();
        match res {
            Ok(rows) => writeln!(out, "(* zip(self, rhs, f): the single call its body consists of, in GenericArray's impl and in the trait default *)\nDefinition gen_zip_delegations : list (string * string * string * list string) :=\n  [{}].\n", rows.join("; ")).unwrap(),
            Err(e) => println!("ERROR GenPipe.v zip_delegations: {}", e),
        }
    }
    let is_iter = |t: &syn::Type| matches!(t, syn::Type::Path(p) if p.path.segments.last().map(|s| s.ident == "GenericArrayIter").unwrap_or(false));
    {
        let res: R<String> = (|| {
            let f = files.get("iter.rs").ok_or("iter.rs missing")?;
            translate_iter_clone(find_fn(f, "Clone", is_iter, "clone")?)
        })();
        match res {
            Ok(t) => writeln!(out, "Definition gen_iter_clone : fnprog :=\n  {}.\n", t).unwrap(),
            Err(e) => println!("ERROR GenPipe.v iter_clone: {}", e),
        }
    }
    for (name, tr, func, back) in [("iter_fold", "Iterator", "fold", false), ("iter_rfold", "DoubleEndedIterator", "rfold", true)] {
        let res: R<String> = (|| {
            let f = files.get("iter.rs").ok_or("iter.rs missing")?;
            translate_iter_fold(find_fn(f, tr, is_iter, func)?, back)
        })();
        match res {
            Ok(t) => writeln!(out, "Definition gen_{} : fnprog :=\n  {}.\n", name, t).unwrap(),
            Err(e) => println!("ERROR GenPipe.v {}: {}", name, e),
        }
    }
}

//! T3: first-order method bodies of iter.rs / internal.rs as MuRust programs
//! (coq/theories/MuRust.v), statement order preserved.
use std::collections::BTreeMap;
use std::fmt::Write as _;
use syn::{BinOp, Block, Expr, FnArg, ImplItem, Item, Member, Pat, Stmt};

type R<T> = Result<T, String>;

fn path_str(p: &syn::Path) -> String {
    p.segments.iter().map(|s| s.ident.to_string()).collect::<Vec<_>>().join("::")
}

fn is_self(e: &Expr) -> bool {
    matches!(e, Expr::Path(p) if p.path.is_ident("self"))
}

/// `self.array`
fn is_self_array(e: &Expr) -> bool {
    match e {
        Expr::Field(f) => is_self(&f.base) && matches!(&f.member, Member::Named(n) if n == "array"),
        _ => false,
    }
}

fn strip(e: &Expr) -> &Expr {
    match e {
        Expr::Paren(p) => strip(&p.expr),
        Expr::Group(g) => strip(&g.expr),
        Expr::Cast(c) => strip(&c.expr),
        Expr::Reference(r) => strip(&r.expr),
        Expr::Unsafe(u) if u.block.stmts.len() == 1 => match &u.block.stmts[0] {
            Stmt::Expr(x, None) => strip(x),
            _ => e,
        },
        Expr::Block(b) if b.block.stmts.len() == 1 && b.label.is_none() => match &b.block.stmts[0] {
            Stmt::Expr(x, None) => strip(x),
            _ => e,
        },
        _ => e,
    }
}

fn field_of(e: &Expr) -> Option<&'static str> {
    if let Expr::Field(f) = strip(e) {
        if is_self(&f.base) {
            if let Member::Named(n) = &f.member {
                return match n.to_string().as_str() {
                    "index" => Some("FIndex"),
                    "index_back" => Some("FIndexBack"),
                    "position" => Some("FPosition"),
                    _ => None,
                };
            }
        }
    }
    None
}

fn expr(e: &Expr) -> R<String> {
    let e = strip(e);
    match e {
        Expr::Lit(l) => match &l.lit {
            syn::Lit::Int(i) => Ok(format!("(EInt {})", i.base10_digits())),
            _ => Err("unsupported literal".into()),
        },
        Expr::Path(p) => {
            let s = path_str(&p.path);
            if s == "N::USIZE" {
                Ok("ELenN".into())
            } else if s == "None" {
                Ok("ENone".into())
            } else if p.path.get_ident().is_some() && s != "self" {
                Ok(format!("(EVar \"{}\")", s))
            } else {
                Err(format!("unsupported path `{}`", s))
            }
        }
        Expr::Field(_) => match field_of(e) {
            Some(f) => Ok(format!("(EFld {})", f)),
            None => Err("unsupported field access".into()),
        },
        Expr::Binary(b) => {
            let (l, r) = (expr(&b.left)?, expr(&b.right)?);
            let op = match b.op {
                BinOp::Add(_) => "EAdd",
                BinOp::Sub(_) => "ESub",
                BinOp::Lt(_) => "ELt",
                BinOp::Eq(_) => "EEq",
                _ => return Err("unsupported binary operator".into()),
            };
            Ok(format!("({} {} {})", op, l, r))
        }
        Expr::Tuple(t) if t.elems.len() == 2 => Ok(format!("(EPair {} {})", expr(&t.elems[0])?, expr(&t.elems[1])?)),
        Expr::Call(c) => {
            let f = match strip(&c.func) {
                Expr::Path(p) => path_str(&p.path),
                _ => return Err("unsupported callee".into()),
            };
            let args: Vec<&Expr> = c.args.iter().collect();
            match (f.as_str(), args.len()) {
                ("cmp::min", 2) | ("core::cmp::min", 2) | ("min", 2) => {
                    Ok(format!("(EMin {} {})", expr(args[0])?, expr(args[1])?))
                }
                ("Some", 1) => Ok(format!("(ESome {})", expr(args[0])?)),
                ("ptr::read", 1) | ("core::ptr::read", 1) => {
                    // ptr::read(self.array.get_unchecked(i))
                    if let Expr::MethodCall(m) = strip(args[0]) {
                        if is_self_array(strip(&m.receiver)) && m.method == "get_unchecked" && m.args.len() == 1 {
                            if !matches!(strip(&m.args[0]), Expr::Range(_)) {
                                return Ok(format!("(EReadAt {})", expr(&m.args[0])?));
                            }
                        }
                    }
                    Err("unsupported ptr::read operand".into())
                }
                _ => Err(format!("unsupported call `{}`", f)),
            }
        }
        Expr::MethodCall(m) => {
            let recv = strip(&m.receiver);
            let name = m.method.to_string();
            if is_self(recv) && m.args.is_empty() {
                return Ok(format!("(ESelfCall \"{}\")", name));
            }
            if is_self_array(recv) && (name == "get_unchecked" || name == "get_unchecked_mut") && m.args.len() == 1 {
                if let Expr::Range(r) = strip(&m.args[0]) {
                    if !matches!(r.limits, syn::RangeLimits::HalfOpen(_)) {
                        return Err("inclusive range".into());
                    }
                    let lo = match &r.start {
                        Some(x) => format!("(Some {})", expr(x)?),
                        None => "None".into(),
                    };
                    let hi = match &r.end {
                        Some(x) => format!("(Some {})", expr(x)?),
                        None => "None".into(),
                    };
                    return Ok(format!("(ERange {} {})", lo, hi));
                }
            }
            Err(format!("unsupported method call `.{}`", name))
        }
        _ => Err("unsupported expression form".into()),
    }
}

fn block(b: &Block) -> R<String> {
    let mut out: Vec<String> = vec![];
    stmts(&b.stmts, &mut out)?;
    Ok(format!("[{}]", out.join("; ")))
}

fn stmts(ss: &[Stmt], out: &mut Vec<String>) -> R<()> {
    for (i, s) in ss.iter().enumerate() {
        let last = i + 1 == ss.len();
        match s {
            Stmt::Local(l) => {
                let name = match &l.pat {
                    Pat::Ident(p) => p.ident.to_string(),
                    Pat::Type(t) => match &*t.pat {
                        Pat::Ident(p) => p.ident.to_string(),
                        _ => return Err("unsupported let pattern".into()),
                    },
                    _ => return Err("unsupported let pattern".into()),
                };
                let init = l.init.as_ref().ok_or("let without initialiser")?;
                if init.diverge.is_some() {
                    return Err("let-else".into());
                }
                out.push(format!("SLet \"{}\" {}", name, expr(&init.expr)?));
            }
            Stmt::Expr(e, semi) => {
                let tail = semi.is_none() && last;
                stmt_expr(e, tail, out)?;
            }
            Stmt::Item(_) => return Err("nested item".into()),
            Stmt::Macro(_) => return Err("macro statement".into()),
        }
    }
    Ok(())
}

fn stmt_expr(e: &Expr, tail: bool, out: &mut Vec<String>) -> R<()> {
    match e {
        Expr::Unsafe(u) => {
            // statements of an unsafe block are spliced in place; its tail is the block's tail
            let n = u.block.stmts.len();
            for (i, s) in u.block.stmts.iter().enumerate() {
                match s {
                    Stmt::Expr(x, semi) => stmt_expr(x, tail && semi.is_none() && i + 1 == n, out)?,
                    other => stmts(std::slice::from_ref(other), out)?,
                }
            }
            Ok(())
        }
        Expr::Paren(p) => stmt_expr(&p.expr, tail, out),
        Expr::Assign(a) => {
            let f = field_of(&a.left).ok_or("assignment to something other than a bookkeeping field")?;
            out.push(format!("SSet {} {}", f, expr(&a.right)?));
            Ok(())
        }
        Expr::Binary(b) if matches!(b.op, BinOp::AddAssign(_) | BinOp::SubAssign(_)) => {
            let f = field_of(&b.left).ok_or("compound assignment to something other than a bookkeeping field")?;
            let k = if matches!(b.op, BinOp::AddAssign(_)) { "SAddTo" } else { "SSubFrom" };
            out.push(format!("{} {} {}", k, f, expr(&b.right)?));
            Ok(())
        }
        Expr::Call(c) if matches!(strip(&c.func), Expr::Path(p) if ["ptr::drop_in_place", "core::ptr::drop_in_place"].contains(&path_str(&p.path).as_str()))
            && c.args.len() == 1 =>
        {
            out.push(format!("SDropInPlace {}", expr(&c.args[0])?));
            Ok(())
        }
        Expr::If(i) => {
            let c = expr(&i.cond)?;
            let t = block(&i.then_branch)?;
            let el = match &i.else_branch {
                Some((_, e)) => match &**e {
                    Expr::Block(b) => block(&b.block)?,
                    Expr::If(_) => {
                        let mut v = vec![];
                        stmt_expr(e, true, &mut v)?;
                        format!("[{}]", v.join("; "))
                    }
                    _ => return Err("unsupported else".into()),
                },
                None => "[]".into(),
            };
            out.push(format!("SIf {} {} {}", c, t, el));
            Ok(())
        }
        _ => {
            if tail {
                out.push(format!("SRet {}", expr(e)?));
                Ok(())
            } else {
                // an expression statement evaluated for its effect only (e.g. a self-call)
                Err("unsupported expression statement".into())
            }
        }
    }
}

fn method(f: &syn::ImplItemFn) -> R<String> {
    let mut kind = "ByRef";
    let mut params: Vec<String> = vec![];
    for a in &f.sig.inputs {
        match a {
            FnArg::Receiver(r) => {
                kind = if r.reference.is_none() {
                    "ByValue"
                } else if r.mutability.is_some() {
                    "ByMutRef"
                } else {
                    "ByRef"
                };
            }
            FnArg::Typed(t) => match &*t.pat {
                Pat::Ident(p) => params.push(format!("\"{}\"", p.ident)),
                _ => return Err("unsupported parameter pattern".into()),
            },
        }
    }
    let body = block(&f.block)?;
    Ok(format!("mkMethod {} [{}] {}", kind, params.join("; "), body))
}

/// (generated name, source file, self type, trait (None = inherent or any), fn name)
const WANTED: &[(&str, &str, &str, &str)] = &[
    ("iter_next", "iter.rs", "GenericArrayIter", "next"),
    ("iter_next_back", "iter.rs", "GenericArrayIter", "next_back"),
    ("iter_nth", "iter.rs", "GenericArrayIter", "nth"),
    ("iter_nth_back", "iter.rs", "GenericArrayIter", "nth_back"),
    ("iter_len", "iter.rs", "GenericArrayIter", "len"),
    ("iter_size_hint", "iter.rs", "GenericArrayIter", "size_hint"),
    ("iter_count", "iter.rs", "GenericArrayIter", "count"),
    ("iter_last", "iter.rs", "GenericArrayIter", "last"),
    ("iter_as_slice", "iter.rs", "GenericArrayIter", "as_slice"),
    ("iter_as_mut_slice", "iter.rs", "GenericArrayIter", "as_mut_slice"),
    ("iter_drop", "iter.rs", "GenericArrayIter", "drop"),
    ("builder_drop", "internal.rs", "ArrayBuilder", "drop"),
    ("builder_is_full", "internal.rs", "ArrayBuilder", "is_full"),
    ("ibuilder_drop", "internal.rs", "IntrusiveArrayBuilder", "drop"),
    ("ibuilder_is_full", "internal.rs", "IntrusiveArrayBuilder", "is_full"),
    ("consumer_drop", "internal.rs", "ArrayConsumer", "drop"),
];

fn self_ty_name(t: &syn::Type) -> String {
    match t {
        syn::Type::Path(p) => p.path.segments.last().map(|s| s.ident.to_string()).unwrap_or_default(),
        _ => String::new(),
    }
}

fn find_fn<'a>(file: &'a syn::File, ty: &str, name: &str) -> Vec<&'a syn::ImplItemFn> {
    let mut v = vec![];
    for it in &file.items {
        if let Item::Impl(im) = it {
            if self_ty_name(&im.self_ty) == ty {
                for ii in &im.items {
                    if let ImplItem::Fn(f) = ii {
                        if f.sig.ident == name {
                            v.push(f);
                        }
                    }
                }
            }
        }
    }
    v
}

/// IntoIterator for GenericArray: the struct literal initialising the iterator
fn into_iter_init(file: &syn::File) -> R<String> {
    for it in &file.items {
        if let Item::Impl(im) = it {
            if self_ty_name(&im.self_ty) == "GenericArray" && im.trait_.as_ref().map(|t| path_str(&t.1)) == Some("IntoIterator".into()) {
                for ii in &im.items {
                    if let ImplItem::Fn(f) = ii {
                        if f.sig.ident == "into_iter" && f.block.stmts.len() == 1 {
                            if let Stmt::Expr(Expr::Struct(s), None) = &f.block.stmts[0] {
                                let mut parts = vec![];
                                for fv in &s.fields {
                                    let n = match &fv.member {
                                        Member::Named(n) => n.to_string(),
                                        _ => return Err("tuple struct".into()),
                                    };
                                    match n.as_str() {
                                        "index" => parts.push(format!("(FIndex, {})", expr(&fv.expr)?)),
                                        "index_back" => parts.push(format!("(FIndexBack, {})", expr(&fv.expr)?)),
                                        "array" => {
                                            // must be ManuallyDrop::new(self): the array is moved in unchanged
                                            let ok = matches!(strip(&fv.expr), Expr::Call(c)
                                                if matches!(strip(&c.func), Expr::Path(p) if path_str(&p.path) == "ManuallyDrop::new")
                                                && c.args.len() == 1 && is_self(strip(&c.args[0])));
                                            if !ok {
                                                return Err("array field is not ManuallyDrop::new(self)".into());
                                            }
                                        }
                                        other => return Err(format!("unexpected field `{}`", other)),
                                    }
                                }
                                if s.rest.is_some() {
                                    return Err("struct update syntax".into());
                                }
                                return Ok(format!("[{}]", parts.join("; ")));
                            }
                        }
                    }
                }
            }
        }
    }
    Err("IntoIterator::into_iter for GenericArray not found or not a struct literal".into())
}

pub fn gen_iter(files: &BTreeMap<String, syn::File>, out: &mut String) {
    out.push_str("From Coq Require Import String ZArith List.\nFrom GA Require Import Base MuRust.\nImport ListNotations.\nLocal Open Scope string_scope.\nLocal Open Scope Z_scope.\n\n");
    let mut emitted: Vec<(&str, &str)> = vec![];
    for (gname, file, ty, fname) in WANTED {
        let Some(f) = files.get(*file) else {
            println!("ERROR GenIter.v {}: source file {} missing", gname, file);
            continue;
        };
        let cands = find_fn(f, ty, fname);
        if cands.len() != 1 {
            println!("ERROR GenIter.v {}: expected exactly one `{}::{}`, found {}", gname, ty, fname, cands.len());
            continue;
        }
        match method(cands[0]) {
            Ok(term) => {
                writeln!(out, "(* {} :: {}::{} *)\nDefinition {} : method :=\n  {}.\n", file, ty, fname, gname, term).unwrap();
                emitted.push((gname, fname));
            }
            Err(e) => println!("ERROR GenIter.v {}: {}", gname, e),
        }
    }
    match files.get("iter.rs").ok_or("iter.rs missing".to_string()).and_then(into_iter_init) {
        Ok(t) => writeln!(out, "(* iter.rs :: IntoIterator for GenericArray :: into_iter *)\nDefinition into_iter_init : list (fld * expr) :=\n  {}.\n", t).unwrap(),
        Err(e) => println!("ERROR GenIter.v into_iter_init: {}", e),
    }
    // method tables (self-calls resolve through them)
    for (table, prefix) in [("iter_table", "iter_"), ("builder_table", "builder_"), ("ibuilder_table", "ibuilder_"), ("consumer_table", "consumer_")] {
        writeln!(out, "Definition {} (m : string) : option method :=", table).unwrap();
        let mut first = true;
        for (g, fname) in &emitted {
            if g.starts_with(prefix) {
                writeln!(out, "  {} String.eqb m \"{}\" then Some {}", if first { "if" } else { "else if" }, fname, g).unwrap();
                first = false;
            }
        }
        if first {
            writeln!(out, "  None.\n").unwrap();
        } else {
            writeln!(out, "  else None.\n").unwrap();
        }
    }
}

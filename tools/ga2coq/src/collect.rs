//! T3 for the collecting functions: IntrusiveArrayBuilder::extend (src/internal.rs),
//! GenericArray::try_from_iter (src/lib.rs), GenericArray::try_boxed_from_iter
//! (src/impl_alloc.rs) as the step lists of coq/theories/Collect.v.  Fail-closed.
use std::collections::BTreeMap;
use std::fmt::Write as _;
use syn::{BinOp, Expr, ImplItem, Item, Pat, Stmt};

type R<T> = Result<T, String>;

fn strip(e: &Expr) -> &Expr {
    match e {
        Expr::Paren(p) => strip(&p.expr),
        Expr::Group(g) => strip(&g.expr),
        Expr::Reference(r) => strip(&r.expr),
        _ => e,
    }
}
fn ident_of(e: &Expr) -> Option<String> {
    match strip(e) {
        Expr::Path(p) if p.path.segments.len() == 1 && p.qself.is_none() => Some(p.path.segments[0].ident.to_string()),
        _ => None,
    }
}
fn path_of(e: &Expr) -> Vec<String> {
    match strip(e) {
        Expr::Path(p) => p.path.segments.iter().map(|s| s.ident.to_string()).collect(),
        _ => vec![],
    }
}
fn is_n_usize(e: &Expr) -> bool {
    path_of(e) == ["N", "USIZE"]
}
fn pat_ident(p: &Pat) -> Option<String> {
    match p {
        Pat::Ident(i) => Some(i.ident.to_string()),
        _ => None,
    }
}
fn pat_tuple(p: &Pat) -> Option<Vec<Option<String>>> {
    match p {
        Pat::Tuple(t) => Some(
            t.elems
                .iter()
                .map(|e| match e {
                    Pat::Ident(i) => Some(i.ident.to_string()),
                    Pat::TupleStruct(ts) if ts.path.is_ident("Some") && ts.elems.len() == 1 => pat_ident(&ts.elems[0]).map(|s| format!("Some:{}", s)),
                    _ => None,
                })
                .collect(),
        ),
        _ => None,
    }
}

fn find_fn<'a>(file: &'a syn::File, self_name: &str, name: &str) -> R<&'a syn::ImplItemFn> {
    let mut found = None;
    for it in &file.items {
        if let Item::Impl(im) = it {
            if im.trait_.is_some() {
                continue;
            }
            let ok = match &*im.self_ty {
                syn::Type::Path(p) => p.path.segments.last().map(|s| s.ident == self_name).unwrap_or(false),
                _ => false,
            };
            if !ok {
                continue;
            }
            for ii in &im.items {
                if let ImplItem::Fn(f) = ii {
                    if f.sig.ident == name {
                        if found.is_some() {
                            return Err(format!("{}::{} defined more than once", self_name, name));
                        }
                        found = Some(f);
                    }
                }
            }
        }
    }
    found.ok_or_else(|| format!("{}::{} not found", self_name, name))
}

fn return_err(e: &Expr) -> bool {
    // return Err(LengthError)
    let inner = match strip(e) {
        Expr::Return(r) => match &r.expr {
            Some(x) => x,
            None => return false,
        },
        Expr::Block(b) if b.block.stmts.len() == 1 => {
            return match &b.block.stmts[0] {
                Stmt::Expr(x, _) => return_err(x),
                _ => false,
            }
        }
        _ => return false,
    };
    if let Expr::Call(c) = strip(inner) {
        path_of(&c.func).last().map(|s| s == "Err").unwrap_or(false) && c.args.len() == 1 && path_of(&c.args[0]).last().map(|s| s == "LengthError").unwrap_or(false)
    } else {
        false
    }
}

/// `match iter.size_hint() { (n, _) if n > N::USIZE => return Err, (_, Some(n)) if n < N::USIZE => return Err, _ => {} }`
fn hint_arms(e: &Expr, iter: &str) -> R<String> {
    let m = match strip(e) {
        Expr::Match(m) => m,
        _ => return Err("expected the size-hint match".into()),
    };
    match strip(&m.expr) {
        Expr::MethodCall(c) if c.method == "size_hint" && ident_of(&c.receiver).as_deref() == Some(iter) => {}
        _ => return Err("match on something other than iter.size_hint()".into()),
    }
    let mut arms = vec![];
    for (i, a) in m.arms.iter().enumerate() {
        let last = i + 1 == m.arms.len();
        if last {
            if !matches!(a.pat, Pat::Wild(_)) || a.guard.is_some() {
                return Err("last size-hint arm is not `_ => {}`".into());
            }
            match strip(&a.body) {
                Expr::Block(b) if b.block.stmts.is_empty() => {}
                Expr::Tuple(t) if t.elems.is_empty() => {}
                _ => return Err("last size-hint arm does something".into()),
            }
            continue;
        }
        if !return_err(&a.body) {
            return Err("size-hint arm that does not return Err(LengthError)".into());
        }
        let names = pat_tuple(&a.pat).ok_or("size-hint arm pattern")?;
        if names.len() != 2 {
            return Err("size-hint arm pattern arity".into());
        }
        let g = a.guard.as_ref().ok_or("size-hint arm without a guard")?;
        let (l, op, r) = match strip(&g.1) {
            Expr::Binary(b) => (ident_of(&b.left), &b.op, &b.right),
            _ => return Err("size-hint guard".into()),
        };
        if !is_n_usize(r) {
            return Err("size-hint guard does not compare with N::USIZE".into());
        }
        let l = l.ok_or("size-hint guard left operand")?;
        match (&names[0], &names[1], op) {
            (Some(lo), None, BinOp::Gt(_)) if *lo == l => arms.push("HLoGt"),
            (None, Some(hi), BinOp::Lt(_)) if *hi == format!("Some:{}", l) => arms.push("HHiLt"),
            _ => return Err("unrecognised size-hint arm".into()),
        }
    }
    Ok(format!("SHintReject [{}]", arms.join("; ")))
}

fn cond(e: &Expr, iter: &str, builder: Option<&str>, vecv: Option<&str>) -> R<String> {
    match strip(e) {
        Expr::Binary(b) if matches!(b.op, BinOp::Or(_)) => Ok(format!("(COrElse {} {})", cond(&b.left, iter, builder, vecv)?, cond(&b.right, iter, builder, vecv)?)),
        Expr::Unary(u) if matches!(u.op, syn::UnOp::Not(_)) => match strip(&u.expr) {
            Expr::MethodCall(m) if m.method == "is_full" && ident_of(&m.receiver).as_deref() == builder => Ok("CNotFull".into()),
            _ => Err("unrecognised negated condition".into()),
        },
        Expr::Binary(b) if matches!(b.op, BinOp::Ne(_)) => match strip(&b.left) {
            Expr::MethodCall(m) if m.method == "len" && ident_of(&m.receiver).as_deref() == vecv && is_n_usize(&b.right) => Ok("CLenNe".into()),
            _ => Err("unrecognised `!=` condition".into()),
        },
        Expr::MethodCall(m) if m.method == "is_some" => match strip(&m.receiver) {
            Expr::MethodCall(n) if n.method == "next" && ident_of(&n.receiver).as_deref() == Some(iter) => Ok("CNextIsSome".into()),
            _ => Err("is_some() of something other than iter.next()".into()),
        },
        _ => Err("unrecognised condition".into()),
    }
}

fn flatten<'a>(b: &'a syn::Block, out: &mut Vec<&'a Stmt>) {
    for s in &b.stmts {
        match s {
            Stmt::Expr(Expr::Unsafe(u), _) => flatten(&u.block, out),
            _ => out.push(s),
        }
    }
}

fn steps(f: &syn::ImplItemFn, boxed: bool) -> R<Vec<String>> {
    let mut st: Vec<&Stmt> = vec![];
    flatten(&f.block, &mut st);
    let mut out = vec![];
    let mut iter: Option<String> = None;
    let mut builder: Option<String> = None;
    let mut array: Option<String> = None;
    let mut vecv: Option<String> = None;
    let mut done = false;
    for s in st {
        if done {
            return Err("statement after the result".into());
        }
        match s {
            Stmt::Local(l) => {
                let name = pat_ident(&l.pat).ok_or("let pattern")?;
                let init = &l.init.as_ref().ok_or("let without initialiser")?.expr;
                match strip(init) {
                    Expr::MethodCall(m) if m.method == "into_iter" && m.args.is_empty() => iter = Some(name),
                    Expr::Call(c) => {
                        let p = path_of(&c.func);
                        let ps: Vec<&str> = p.iter().map(|s| s.as_str()).collect();
                        match ps.as_slice() {
                            ["GenericArray", "uninit"] if !boxed => array = Some(name),
                            ["IntrusiveArrayBuilder", "new"] if !boxed && c.args.len() == 1 && ident_of(&c.args[0]) == array => builder = Some(name),
                            ["Vec", "with_capacity"] if boxed && c.args.len() == 1 && is_n_usize(&c.args[0]) => vecv = Some(name),
                            _ => return Err(format!("unrecognised let {}", name)),
                        }
                    }
                    _ => return Err(format!("unrecognised let {}", name)),
                }
            }
            Stmt::Expr(e, _) => {
                let it = iter.clone().ok_or("the source is used before `iter.into_iter()`")?;
                match strip(e) {
                    Expr::Match(_) => out.push(hint_arms(e, &it)?),
                    Expr::MethodCall(m) if m.method == "extend" && m.args.len() == 1 => {
                        let recv = ident_of(&m.receiver);
                        if !boxed && recv == builder && recv.is_some() && ident_of(&m.args[0]).as_deref() == Some(&it) {
                            out.push("SBuilderExtend".into());
                        } else if boxed && recv == vecv && recv.is_some() {
                            // (&mut iter).take(N::USIZE)
                            match strip(&m.args[0]) {
                                Expr::MethodCall(t) if t.method == "take" && t.args.len() == 1 && is_n_usize(&t.args[0]) && ident_of(&t.receiver).as_deref() == Some(&it) => out.push("SVecExtendTake".into()),
                                _ => return Err("Vec::extend over something other than (&mut iter).take(N::USIZE)".into()),
                            }
                        } else {
                            return Err("unrecognised extend".into());
                        }
                    }
                    Expr::If(i) if i.else_branch.is_none() => {
                        let ok = i.then_branch.stmts.len() == 1 && matches!(&i.then_branch.stmts[0], Stmt::Expr(x, _) if return_err(x));
                        if !ok {
                            return Err("`if` whose body is not `return Err(LengthError)`".into());
                        }
                        out.push(format!("SErrIf {}", cond(&i.cond, &it, builder.as_deref(), vecv.as_deref())?));
                    }
                    Expr::Call(c) if path_of(&c.func) == ["Ok"] && c.args.len() == 1 => {
                        match strip(&c.args[0]) {
                            // Ok({ builder.finish(); IntrusiveArrayBuilder::array_assume_init(array) })
                            Expr::Block(b) if !boxed && b.block.stmts.len() == 2 => {
                                let fin = matches!(&b.block.stmts[0], Stmt::Expr(Expr::MethodCall(m), Some(_)) if m.method == "finish" && ident_of(&m.receiver) == builder);
                                let init = match &b.block.stmts[1] {
                                    Stmt::Expr(Expr::Call(c2), None) => path_of(&c2.func) == ["IntrusiveArrayBuilder", "array_assume_init"] && c2.args.len() == 1 && ident_of(&c2.args[0]) == array,
                                    _ => false,
                                };
                                if !(fin && init) {
                                    return Err("unrecognised successful ending".into());
                                }
                                out.push("SFinishOk".into());
                            }
                            // Ok(GenericArray::try_from_vec(v).unwrap())
                            Expr::MethodCall(u) if boxed && u.method == "unwrap" => match strip(&u.receiver) {
                                Expr::Call(c2) if path_of(&c2.func) == ["GenericArray", "try_from_vec"] && c2.args.len() == 1 && ident_of(&c2.args[0]) == vecv => out.push("SFromVecOk".into()),
                                _ => return Err("unrecognised successful ending".into()),
                            },
                            _ => return Err("unrecognised successful ending".into()),
                        }
                        done = true;
                    }
                    _ => return Err("unrecognised statement".into()),
                }
            }
            _ => return Err("unrecognised statement".into()),
        }
    }
    if !done {
        return Err("no successful ending".into());
    }
    Ok(out)
}

/// the loop of IntrusiveArrayBuilder::extend
fn extend_loop(f: &syn::ImplItemFn) -> R<String> {
    let source = f
        .sig
        .inputs
        .iter()
        .filter_map(|a| match a {
            syn::FnArg::Typed(t) => pat_ident(&t.pat),
            _ => None,
        })
        .next()
        .ok_or("extend has no source parameter")?;
    let mut st: Vec<&Stmt> = vec![];
    flatten(&f.block, &mut st);
    if st.len() != 2 {
        return Err("extend is not `let (destination, position) = ..; <loop>`".into());
    }
    // let (destination, position) = (self.array.iter_mut(), &mut self.position);
    let (dest, pos) = match st[0] {
        Stmt::Local(l) => {
            let names = match &l.pat {
                Pat::Tuple(t) if t.elems.len() == 2 => (pat_ident(&t.elems[0]), pat_ident(&t.elems[1])),
                _ => return Err("extend: first let pattern".into()),
            };
            let init = &l.init.as_ref().ok_or("extend: let without initialiser")?.expr;
            let ok = match strip(init) {
                Expr::Tuple(t) if t.elems.len() == 2 => {
                    let a = match strip(&t.elems[0]) {
                        Expr::MethodCall(m) if m.method == "iter_mut" => matches!(strip(&m.receiver), Expr::Field(fl) if matches!(&fl.member, syn::Member::Named(n) if n == "array")),
                        _ => false,
                    };
                    let b = matches!(strip(&t.elems[1]), Expr::Field(fl) if matches!(&fl.member, syn::Member::Named(n) if n == "position"));
                    a && b
                }
                _ => false,
            };
            if !ok {
                return Err("extend: destination / position are not self.array.iter_mut() / &mut self.position".into());
            }
            (names.0.ok_or("extend: destination name")?, names.1.ok_or("extend: position name")?)
        }
        _ => return Err("extend: first statement".into()),
    };
    // A.zip(B).for_each(|(a, b)| { body });
    let (zip_recv, zip_arg, closure) = match st[1] {
        Stmt::Expr(e, _) => match strip(e) {
            Expr::MethodCall(fe) if fe.method == "for_each" && fe.args.len() == 1 => match strip(&fe.receiver) {
                Expr::MethodCall(z) if z.method == "zip" && z.args.len() == 1 => (ident_of(&z.receiver), ident_of(&z.args[0]), &fe.args[0]),
                _ => return Err("extend: for_each over something other than a zip".into()),
            },
            _ => return Err("extend: the loop is not zip(..).for_each(..)".into()),
        },
        _ => return Err("extend: second statement".into()),
    };
    let (a, b) = (zip_recv.ok_or("extend: zip receiver")?, zip_arg.ok_or("extend: zip argument")?);
    let dest_first = if a == dest && b == source {
        true
    } else if a == source && b == dest {
        false
    } else {
        return Err("extend: zip of something other than destination and source".into());
    };
    let c = match strip(closure) {
        Expr::Closure(c) => c,
        _ => return Err("extend: for_each argument is not a closure".into()),
    };
    if c.inputs.len() != 1 {
        return Err("extend: closure arity".into());
    }
    let names = match &c.inputs[0] {
        Pat::Tuple(t) if t.elems.len() == 2 => (pat_ident(&t.elems[0]), pat_ident(&t.elems[1])),
        _ => return Err("extend: closure pattern".into()),
    };
    let (first, second) = (names.0.ok_or("extend: closure pattern")?, names.1.ok_or("extend: closure pattern")?);
    let (dst, src) = if dest_first { (first, second) } else { (second, first) };
    let mut body = vec![];
    let stmts: Vec<Stmt> = match strip(&c.body) {
        Expr::Block(bk) => bk.block.stmts.clone(),
        _ => return Err("extend: closure body is not a block".into()),
    };
    for s in &stmts {
        match s {
            Stmt::Expr(e, Some(_)) => match strip(e) {
                Expr::MethodCall(m) if m.method == "write" && m.args.len() == 1 => {
                    let d = ident_of(&m.receiver).ok_or("extend: write receiver")?;
                    let v = ident_of(&m.args[0]).ok_or("extend: written value")?;
                    body.push(format!("CWrite \"{}\" (XAtom (AVar \"{}\"))", d, v));
                }
                Expr::Binary(b) if matches!(b.op, BinOp::AddAssign(_)) => {
                    let p = match strip(&b.left) {
                        Expr::Unary(u) if matches!(u.op, syn::UnOp::Deref(_)) => ident_of(&u.expr),
                        _ => None,
                    }
                    .ok_or("extend: `+=` on something other than *position")?;
                    match strip(&b.right) {
                        Expr::Lit(l) if matches!(&l.lit, syn::Lit::Int(i) if i.base10_digits() == "1") => {}
                        _ => return Err("extend: position advanced by something other than 1".into()),
                    }
                    body.push(format!("CBump \"{}\"", p));
                }
                _ => return Err("extend: unrecognised closure statement".into()),
            },
            _ => return Err("extend: unrecognised closure statement".into()),
        }
    }
    Ok(format!("mkExtend {} \"{}\" \"{}\" \"{}\"\n  [{}]", dest_first, dst, src, pos, body.join("; ")))
}

pub fn gen_collect(files: &BTreeMap<String, syn::File>, out: &mut String) {
    out.push_str("From Coq Require Import String ZArith List.\nFrom GA Require Import Base Pipe Collect.\nImport ListNotations.\nLocal Open Scope string_scope.\n\n");
    let r: R<String> = (|| extend_loop(find_fn(files.get("internal.rs").ok_or("internal.rs missing")?, "IntrusiveArrayBuilder", "extend")?))();
    match r {
        Ok(t) => writeln!(out, "Definition gen_extend : extend_loop := {}.\n", t).unwrap(),
        Err(e) => println!("ERROR GenCollect.v extend: {}", e),
    }
    // the owning builder of the `internals` API has the same loop
    let r: R<String> = (|| extend_loop(find_fn(files.get("internal.rs").ok_or("internal.rs missing")?, "ArrayBuilder", "extend")?))();
    match r {
        Ok(t) => writeln!(out, "Definition gen_array_builder_extend : extend_loop := {}.\n", t).unwrap(),
        Err(e) => println!("ERROR GenCollect.v array_builder_extend: {}", e),
    }
    for (name, file, func, boxed) in [("gen_try_from_iter", "lib.rs", "try_from_iter", false), ("gen_try_boxed_from_iter", "impl_alloc.rs", "try_boxed_from_iter", true)] {
        let r: R<Vec<String>> = (|| steps(find_fn(files.get(file).ok_or("file missing")?, "GenericArray", func)?, boxed))();
        match r {
            Ok(s) => writeln!(out, "Definition {} : list cstep :=\n  [{}].\n", name, s.join("; ")).unwrap(),
            Err(e) => println!("ERROR GenCollect.v {}: {}", func, e),
        }
    }
}

#!/bin/bash
# goals.sh <file.v> <line> : show the proof state after <line> (scratch compile, nothing written into the tree)
f=$1; l=$2
d=$(mktemp -d /tmp/goals.XXXX)
head -n "$l" "$f" > $d/T.v
echo 'Show. ' >> $d/T.v
cd /verif/coq
coqc -q -Q theories GA -Q gen GAGen -Q properties GAProp $d/T.v 2>&1 | tail -${3:-40}
rm -rf $d

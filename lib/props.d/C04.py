PROP = {
    "num": 4,
    "runs": [{"tag": "c04", "bin": "c04", "features": ["forms"]},
             # optimised build of the same cases: no debug assertions, no overflow checks, inlined unsafe paths
             {"tag": "c04rel", "bin": "c04", "features": ["forms"], "profile": "release", "tiers": ["thorough"]},
             # a SOURCE iterator that panics inside from_iter / try_from_iter / the boxed forms, at every poll index
             {"tag": "c04src", "bin": "c07", "args": ["--only", "panics"], "num": 7},
             # box_arr![x; N] (both repeat forms) with an element whose Clone::clone panics at call k: every identity
             # created is released exactly once (direct oracle)
             {"tag": "c04macros", "bin": "c04", "features": ["forms"], "args": ["--macros"], "model": False}],
    "mismatch_is_failing": True,
    "rule": "every operation (map x4 receiver forms, zip x9 stack forms + Box x Box, fold x4, generate x4 (stack, boxed, through &S / &mut S), GenericArray::clone, Default, and GenericArrayIter::clone / fold / rfold from every (front, back) position) x N in 0..=5 and 33 (thorough 0..=8, 16, 33) x an injected panic at every call index (and none); generate also with zero-sized drop-counted elements (live count must return to 0); source-iterator panics are covered by the C07 run. Element kinds: Tr, Tz (form 0, ops 0-2), plain u32 / P3 (12 bytes, align 4) / H2 (u16) without drop glue, Cn (observable Clone, no drop glue; no injected panic); run c04macros: box_arr![x; N] with a Clone that panics at every call index. Default also as default_boxed() with a panic at every call index. distinct = distinct CASE lines; non-trivial = a panic is injected (fifth integer >= 0)",
    "nontrivial": lambda case, obs: int(case.split()[4]) >= 0,
    "manifest": {
        "design_ref": "DESIGN.md section 7, C04",
        "text": "Theorems in Coq over the hub model in which every map/zip/generate/Clone/Default form is try_from_iter over the pipeline script of the caller's function (inputs owned or borrowed), for every length and every call index of the injected panic: everything that existed (owned inputs, values already produced) is released exactly once or returned; the panic propagates; no partially initialised array is returned; same for fold, iterator fold/rfold, source-iterator panics and GenericArrayIter::clone (pre-fix code refuted by a computed witness). Tie to the code: extracted model vs the real operations with drop-logging elements and a panic injected at every call index (outcome, call log, handed-over ids, drop multiset) plus a direct ownership-conservation oracle. T3 tie: the bodies of map / fold / inverted_zip / inverted_zip2 / generate (src/lib.rs) and of the boxed generate (src/impl_alloc.rs) are regenerated from the source on every run as pipeline programs (coq/gen/GenPipe.v: sources iterated in lockstep with their ArrayConsumer / builder position variables, the closure statement by statement, the sink) and executed by an operational interpreter (coq/theories/Pipe.v) that only knows what the Drop impls do with the positions as they are; coq/theories/PipeTie.v proves, for every input, caller function and panic point, that they give exactly the list-level meaning the theorems are about (C04_source_*).",
        "technique": "machine-checked proof in Coq (all lengths, all crash points, all ownership forms) + extracted-model vs implementation differential correspondence with injected panics",
    },
}

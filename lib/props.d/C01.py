# Configuration of ./check C01 (fields: see props.d/C06.py).
def _nontrivial(case, obs):
    # non-trivial = a layout case (not the const_transmute guard) whose digit list
    # denotes a non-zero length
    t = case.split()
    if t[0] == "3":
        return t[1] != t[2]
    pos = 3
    if t[0] == "1":
        pos += 1 + int(t[3])
    nd = int(t[pos])
    return any(d == "1" for d in t[pos + 1:pos + 1 + nd])


PROP = {
    "regen_files": ["GenLayoutDecls.v"],
    "num": 1,
    "runs": [{"tag": "c01", "bin": "c01"},
             # compile-time tie for the repr attributes (improper_ctypes) + the non-normalised digit patterns: a
             # separate build, so that losing those cannot keep the main run from finding a failing (T, N)
             {"tag": "c01x", "bin": "c01", "features": ["c01x"]},
             # every large length typenum names (2^k, 2^k-1 for k = 13..62, 10^k for k = 5..18) ALONE in its own
             # crate, compiled with rustc's default settings: the depth of the type-level recursion one length
             # needs by itself (in one crate the solver reuses what it proved for the shorter lengths)
             {"tag": "c01p", "bin": "c01p", "no_default_features": True}],
    "mismatch_is_failing": True,
    "rule": "matrix, no sampling: quick = 15 element layouts (u8 u16 u32 u64 u128 () [u8;3] (u8,u16) (u8,u32) packed(5 bytes) align(16) align(64)-ZST [u16;0] GenericArray<u8,U3> GenericArray<u32,U2>) x lengths 0..=64 + {97,127,128,255,256,1023,1024,1025} + 17 non-normalised digit patterns (leading B0 digits), + every typenum 2^k, 2^k-1 (k=13..62) and 10^k (k=5..18) for the zero-sized layouts, u8 (<= 2^56) and u32 (<= 2^54), + ConstDefault-built arrays of 4 pattern types, + 6 nested array shapes x 33 outer lengths (flat offsets), + the const_transmute size guard on 32 size pairs, + (run c01p) each of those large lengths alone in a separately compiled crate (rustc defaults) for the three zero-sized layouts, u8 and u32; thorough = additionally every length 0..=1024 and {2047,2048,2049,3000,4095,4096,10000} for the 15 layouts, 28 further element layouts (sizes 2..=64, alignments 2..=4096, padded tuples, packed(2), repr(C), aligned zero-sized, empty and nested GenericArrays) x the quick length set, ConstDefault arrays for every length 0..=1024. Each case compares size_of, align_of, as_slice().len() and the byte offsets of elements (all of them up to N=128, else i=0,1,N/2,N-1 and the absent N) with the layout model evaluated on the crate's declarations; lengths above 4096: size and alignment against the model (linear-time evaluation proved equal), offsets against the direct oracle only. distinct = distinct CASE lines; non-trivial = the digit list denotes a non-zero length (or, for const_transmute, the sizes differ)",
    "nontrivial": _nontrivial,
    "manifest": {
        "design_ref": "DESIGN.md section 7, C01",
        "text": "Theorems in Coq over a model of rustc's repr(C) / repr(transparent) / array / PhantomData layout rules applied to the crate's declarations (GenericArrayImplEven/Odd, the three ArrayLength impls, GenericArray): for EVERY element type that has a layout and EVERY binary digit list (unbounded depth, leading zero digits included), GenericArray<T, N> has size N*size_of(T) and the alignment of T, exactly the layout of [T; N]; its elements sit at offsets 0, s, ..., (N-1)s in order with nothing outside [0, N*s); an array of arrays is laid out as the flat array. Proved by induction over the digit list; negative controls (unit base case, sized marker, missing repr) are refuted. The model is tied to /repo by evaluating its OCaml extraction on the declarations and comparing size_of / align_of / element offsets with rustc's on a matrix of element layouts x lengths (all 0..=1024, every typenum 2^k, 2^k-1, 10^k up to 2^62, non-normalised lengths), with [T; N] itself as direct oracle.",
        "technique": "machine-checked proof in Coq (induction over the type-level binary recursion) + extracted-model vs rustc layout differential correspondence",
    },
}

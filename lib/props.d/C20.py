# Configuration of ./check C20 (fields: see props.d/C06.py).
PROP = {
    "regen_files": ["GenMacro.v"],
    "num": 20,
    "runs": [
        # generated programs compiled with rustc against the rlib of the current tree
        {"tag": "c20", "bin": "c20", "timeout": {"quick": 600, "thorough": 1500}},
        # the same invocations written in the harness source (built by cargo with the harness)
        {"tag": "c20src", "bin": "c20src", "timeout": 600},
        {"tag": "c20-release", "bin": "c20", "profile": "release", "tiers": ["thorough"], "timeout": 1500},
        {"tag": "c20src-release", "bin": "c20src", "profile": "release", "tiers": ["thorough"], "timeout": 600},
    ],
    "mismatch_is_failing": True,
    "rule": "invocations written in the harness source by a prefix macro (arr!/box_arr! list forms with every element count 0..=64, u32/String/clone-logging/zero-sized elements, 0-2 trailing commas, const position; both repeat forms over {0,1,2,3,8,16,33,64,100,128,255,256,1024}) plus generated programs compiled with rustc against the rlib cargo built from the current tree (list forms whose elements are distinct fn items coerced to one fn-pointer type, repeat forms whose operand is a `const` item of a non-Copy type, a braced length that is a const generic parameter of the enclosing fn; every element count 0..=64 plus 100,128,255,256 for arr!/box_arr!/const, repeat forms over the lattice plus 1025 and 2048 (thorough: 18 more lengths) with type-level lengths written as explicit UInt nests, const-item lengths as bare path and braced, box_arr! in a const); a program that does not compile is the observable 1. distinct = distinct CASE lines; non-trivial = count > 0 and the invocation compiles",
    "nontrivial": lambda case, obs: case.split()[1] != "0" and obs.split()[0] == "0",
    "trusted_extra": [
        "C20 (strength PARTIAL): proved is the meaning of the macro arms as stated in coq/theories/MacroDecls.v, which are proved equal to the arms tools/ga2coq regenerates from src/arr.rs on every run (coq/gen/GenMacro.v, coq/theories/MacroTie.v; also the const-ness of the crate functions the arms call) under the evaluation rules stated in Macros.v; trusted and sampled by the correspondence only: macro_rules! fragment matching and hygiene, Rust's left-to-right evaluation order and [x; n] / vec![x; n] semantics, typenum's Const<N> table (per length, hence the dense sampling of element counts), rustc's const evaluator",
    ],
    "manifest": {
        "design_ref": "DESIGN.md section 7, C20",
        "text": "PARTIAL. Coq theorems over a term model of the macro_rules! arms of arr!, box_arr! and box_arr_helper! (matcher shape + transcriber, transcribed from src/arr.rs as data) with substitution of $x under repetition, nested expansion, and an evaluation semantics with an effect log: for ALL argument lists of opaque side-effecting expressions, arr![e0..ek] (any number of trailing commas, the empty list included) evaluates each expression exactly once in order and yields a GenericArray whose type-level length is the element count and whose contents are the values; the same at compile time in a const; both repeat forms yield N copies of x with x evaluated once (type-level N: any Unsigned; expression n: those in typenum's Const table, otherwise a compile error); box_arr! yields a Box holding the equal array with the same log, the unit array of box_arr_helper!(@unit $x) has the vec!'s length so __from_vec_helper's unwrap_unchecked is on Ok, and $x is evaluated once although it occurs twice in the transcriber; no panic, no UB in the model; unsafe hygiene: no caller-written fragment occurs inside an unsafe block of any expansion (the term model carries the transcribers' unsafe blocks, regenerated from the source). Trusted and only sampled: macro_rules! matching/hygiene, Rust's evaluation order, typenum's Const<N> table, rustc's const evaluator. Tie to the code: the extracted model against invocations in the harness source and generated programs compiled with rustc against the current crate (every element count 0..=64, 100, 128, 255, 256; length lattice; Copy, non-Copy, clone-logging and zero-sized elements; const positions; programs that must not compile).",
        "technique": "machine-checked proof in Coq over a deep embedding of the macro transcribers (all argument lists, induction) + extracted-model vs rustc-compiled invocations differential correspondence",
        "note": "Strength partial: macro_rules! matching and hygiene, Rust's evaluation order and typenum's Const<N> table are trusted and sampled, not proved. Trusted: Coq 8.16.1 kernel; extraction (ExtrOcamlBasic) and the correspondence harness (rustc 1.95.0).",
    },
}

# Configuration of ./check C19 (fields: see props.d/C06.py).
PROP = {
    "regen_files": ["GenConstDefaultDecls.v", "GenDeleg.v", "GenSigs.v"],
    "num": 19,
    "runs": [{"tag": "c19", "bin": "c19"},
             {"tag": "c19-release", "bin": "c19", "profile": "release", "tiers": ["thorough"]},
             # const items of non-Copy ConstDefault element types (one with a destructor), each length in its own
             # separately compiled program: names the lengths whose storage shape loses the constant default
             {"tag": "c19p", "bin": "c19p", "no_default_features": True},
             # caller program compiled separately: zeroize() from code generic over T: Zeroize, elements that borrow
             {"tag": "c19call", "bin": "gcall", "no_default_features": True, "args": ["--prop", "C19"], "model": False},
             # statics of 2^19 / 2^20 elements from const_default() and from DEFAULT (direct oracles: four places, no
             # loop): the constant default stays within the const evaluator's step budget for every length
             {"tag": "c19big", "bin": "c19p", "no_default_features": True, "args": ["--big"], "model": False, "timeout": 600}],
    "mismatch_is_failing": True,
    "rule": "every length type N in 0..=64 and {97,127,128,255,256,1023,1024,1025 (= Sum<U1024,U1>)} plus six non-normalised lengths (leading B0 digits: 0,0,1,2,3,10), the digit list read off the type itself; x element types u8, u64, [u8;3], GenericArray<u8,U3>, Fd (zero {0,0} / default {7,9}), Keep (zeroize keeps the id field), W (one byte, default 0x5A), GenericArray<W,U3>, KeepBig, Inv (zeroized value 0xFF), Page (5000 bytes), Cnt (zeroize counts: x -> x+1, so an element reached twice shows); x {const_default() at run time, DEFAULT in a const block, Default::default(), zeroize() on all-ones and seeded random prior contents (thorough: 12-60 seeds, index pattern, all zero, a single non-zero element; debug and release builds)}; plus 27 `const` items compared element-wise by the compiler; run c19p: const items (and a static from DEFAULT) of a non-Copy struct and of a type with a destructor, one separately compiled program per length (16 lengths, thorough 52). Also Lv (a field with a lifetime), K8 (align 8) and Dz (zero-sized with Drop; const_default only) elements, zeroize through a concrete and a boxed array (ops 5 and 6); run c19call: callers generic over T: Zeroize / ConstDefault and over N, elements that borrow; run c19big: statics of 2^19 / 2^20 elements built from const_default() and DEFAULT (direct oracles at four places; the const evaluator's step budget must suffice). distinct = distinct CASE lines; non-trivial = N > 0 (the observable has an element)",
    "nontrivial": lambda case, obs: len(obs.split()) > 1,
    "manifest": {
        "design_ref": "DESIGN.md section 7, C19",
        "text": "Coq theorems over the hub model of impl_zeroize.rs / impl_const_default.rs and the recursive storage of lib.rs, for every type-level digit list (any depth, leading zero digits allowed, hence every N), every element type (zeroize function and constant default arbitrary) and every prior content: the value built by the three ConstDefault impls (field initialisers kept as declarations in ConstDefaultDecls.v) has the storage type's shape and its leaves in memory order are exactly N copies of the element default, slot by slot, equal to Default::default() = generate(|_| d); every value of the storage type has exactly N leaves; zeroize over the mutable slice view replaces every one of the N cells by its zeroized value (N copies of the zero value when that is constant), keeps the shape and never reads outside the view. The model is tied to /repo by running its OCaml extraction and the real crate on the same lengths, element types and prior contents, at run time, in const blocks and in const items.",
        "technique": "machine-checked proof in Coq (induction over the type-level digits, all element types and contents) + extracted-model vs implementation differential correspondence",
    },
}

PROP = {
    "num": 3,
    "runs": [
        # drop-tracked identities (8 bytes, no heap payload); thorough: the depth-3 enumeration
        {"tag": "c03", "bin": "c03", "timeout": {"quick": 600, "thorough": 2400}},
        # the element types of the property's quantifier (same cases, `--elem`; in the thorough tier the
        # depth-2 enumeration with the thorough seeded histories):
        # drop-tracked WITH a heap payload: same identities, same model lines; a double drop is a double free
        {"tag": "c03th", "bin": "c03", "args": ["--elem", "th"], "timeout": {"quick": 600, "thorough": 1200}},
        # drop-tracked ZERO-SIZED elements: no identities, so no model lines; direct oracles on shapes,
        # per-op created / dropped counts and the live count after every op and after the final drop
        {"tag": "c03tz", "bin": "c03", "args": ["--elem", "tz"], "model": False, "timeout": {"quick": 600, "thorough": 1200}},
        # plain u32 values without drop glue (the crate's needs_drop == false paths): values are the
        # identities, "dropped" = vanished from the pool, so the model lines apply
        {"tag": "c03u32", "bin": "c03", "args": ["--elem", "u32"], "timeout": {"quick": 600, "thorough": 1200}},
        # arrays above 64 KiB (10000 tracked elements; also split / concat / lengthen / shorten at that size, and one-byte elements with a destructor through every conversion): the conversions to Vec / Box<[T]> / native array / iterator
        # and back move every element silently, and dropping the result releases each identity once (direct oracles)
        {"tag": "c03big", "bin": "c03", "args": ["--big"], "model": False, "timeout": 300},
        # std's provided iterator methods (find, filter, skip_while, position, max, step_by, ..) on the by-value iterator,
        # nothing panicking: every element is handed out or released exactly once (the bin of C05, direct oracles)
        {"tag": "c03provided", "bin": "c05", "args": ["--provided"], "model": False},
        # serde: deserialize_in_place into an array of drop-tracked elements (the bin of C17, direct oracle)
        {"tag": "c03inplace", "bin": "c17", "args": ["--inplace"], "model": False},
        # heap-payload elements with the bin rebuilt under AddressSanitizer (nightly): double free /
        # use-after-free abort the case that was running
        {"tag": "c03th-asan", "bin": "c03", "args": ["--elem", "th", "--sanitize"], "tiers": ["thorough"],
         "expect_cases": False, "timeout": 2400},
    ],
    "mismatch_is_failing": True,
    "rule": "element kinds: Tr (drop-tracked id), Th (drop-tracked id + heap payload, also under AddressSanitizer in the thorough tier), Tz (drop-tracked zero-sized; count oracles instead of model lines), plain u32 without drop glue - each kind runs the same cases (thorough: depth 3 for Tr only). Cases: a pool of real objects (stack GenericArray<T,N>, GenericArrayIter, Box<GenericArray>, Vec, Box<[T]>, single elements; N in 0..=12) driven through the real API, outputs of one op moved into the next: (a) exhaustive - from every single-object start (each kind, N in 0..=4) and every pair of arrays / array+element (N,M in 0..=3), every sequence of up to 2 (thorough 3) type-correct operations out of the 41 (incl. try_from_iter / try_boxed_from_iter of a Vec of any length L into every target length 0..=L+2; all slots, split points, indices, dividing chunk lengths, skip counts up to one past the end; generate of length 0..=3, thorough 0..=2), then observe + drop of everything; (a') all lengths - from every start with N (and M) in 0..=12 every single operation: every (N,K) split, every (N,M) concat with N+M<=12, every dividing (NM,N) unflatten, every remove index, tuples and native arrays up to 12; (b) typing - every op code on every kind of object, on a cleared slot, on a missing slot, and with the same slot twice; (c) seeded histories (quick 600 x 12 ops + 100 x 40; thorough 5000 x 40 + 20000 x 12 + 200 x 150; about 5% ill-typed ops, skip counts up to usize::MAX). Further runs without a model line (direct exact-once oracles): c03big - 10000-element Tr conversions, split/concat/pop/append/prepend at N up to 10000, one-byte drop-tracked elements, GenericArrayIter::clone_from, map/zip through &plain and &mut plain receivers; c03provided - std's provided iterator methods (find, position, any, all, skip_while, filter, max, min_by_key, rev().find, step_by, for_each) over GenericArrayIter, every element released exactly once; c03inplace - serde deserialize_in_place over a live array. distinct = distinct CASE lines; non-trivial = at least two operations and at least one element dropped, observed or moved into a new object during the history",
    "nontrivial": lambda case, obs: len(case.split()) >= 5 and len(obs.split()) >= 8,
    "manifest": {
        "design_ref": "DESIGN.md section 7, C03",
        "text": "Theorems in Coq over the pool model of ownership histories (stack arrays, by-value iterators, boxed arrays, Vecs, boxed slices, caller-held elements; 39 operations: generate, collect, into_iter, next/next_back/nth/nth_back, iterator and array clone, drop, map/zip/fold, iterator fold/rfold/count/last, append/prepend/pop_back/pop_front/split/concat/remove/swap_remove, flatten/unflatten, native-array and tuple round trips, Vec/Box/Box<[T]> conversions, observe): every step conserves ownership (owned-after + dropped is a permutation of owned-before + created), so for every finite history from the empty pool, with what is left dropped last, the drops are a permutation of the pairwise-distinct elements ever created - each element is dropped exactly once - and no view ever shows an element after it was dropped. Tie to the code: the extracted model vs the real crate on a pool of real by-value objects with identity-carrying drop-logging elements, chained (exhaustive short histories from every kind of start + every op on every kind of object + seeded long histories), comparing per operation the validity, the sorted ids dropped, the ids observed and the shapes and contents of every new object; direct oracles for observation after drop, per-identity drop count != 1 at the end (double drop / leak) and panics.",
        "technique": "machine-checked conservation proof in Coq (all histories, all lengths) + extracted-model vs implementation differential correspondence on chained by-value operations with drop-tracked elements",
    },
}

# Configuration of ./check C06.  Fields:
#   num        property number used by the extracted model's dispatch (Corr.v)
#   runs       harness runs: tag, bin (harness/src/bin/<bin>.rs), optional features/profile/args/env/tiers/timeout,
#              model (default True: compare OBS lines with the extracted hub), mismatch_is_failing
#   rule / nontrivial   how cases are enumerated and which count as non-trivial (for the evidence file)
#   manifest   text for MANIFEST.json (level text, technique, design_ref)
PROP = {
    "num": 6,
    "runs": [{"tag": "c06", "bin": "c06"},
             # optimised build of the same cases: no debug assertions, no overflow checks, inlined unsafe paths
             {"tag": "c06rel", "bin": "c06", "profile": "release"},
             # element type without drop glue but with an observable Clone (clone adds 2^20): a bitwise-copy
             # shortcut in GenericArrayIter::clone is invisible for u32
             {"tag": "c06cn", "bin": "c06", "args": ["--elem", "cn"], "num": 106},
             # zero-sized elements (all values 0): how many elements fold / rfold / clone / Debug / nth visit
             {"tag": "c06zs", "bin": "c06", "args": ["--elem", "zs"]},
             # elements with drop glue (values as for u32, same model lines): a clone drops nothing, dropping a clone
             # runs len() destructors, over a whole history as many destructors as values made (direct oracles)
             {"tag": "c06dr", "bin": "c06", "args": ["--elem", "dr"]},
             # zero-sized elements with a destructor (values as for c06zs): the same three oracles
             {"tag": "c06dz", "bin": "c06", "args": ["--elem", "dz"]},
             # next / next_back / nth / nth_back / len / size_hint / as_slice run through the programs
             # REGENERATED from src/iter.rs (GenRun.v)
             {"tag": "c06gen", "bin": "c06", "num": 206},
             # zero-sized elements cost no memory, so N can exceed u32::MAX (2^31, 2^32, 2^32+5): scripted
             # next / next_back / nth / nth_back / len / size_hint / count against a length-only queue
             # (direct oracle; the list model cannot hold 2^32 items)
             {"tag": "c06huge", "bin": "c06", "args": ["--huge"], "model": False}],
    "mismatch_is_failing": True,
    "regen_files": ["GenIter.v", "GenSigs.v", "GenPipe.v"],
    "rule": "exhaustive: every reachable (front,back) position (directly and through clone) x every operation x every argument 0..=len+2 and usize::MAX for N<=5 (thorough: N<=8), followed by a fixed observation trailer; plus seeded histories over N in {0,1,2,3,5,8,16,97,1024}; the same with an observable-Clone element (c06cn) and with a zero-sized element (c06zs: all values 0, what shows is how many elements each operation visits). Direct oracles beside the model comparison: Debug under {:#?}, {:x?}, {:X?}, {:5?}, {:+?}, {:#06x?} must print what a one-field tuple struct holding the remaining slice prints; with the observable-Clone element Cn (clone counter + per-element use counter in a Cell) every clone() runs T::clone exactly len() times, each on the original's own element, and hands out only fresh clones. Run c06dr: the same cases with drop-counted elements - clone() runs no destructor, dropping a clone runs len() of them, and over every history as many destructors run as values were made. Run c06dz: the same with zero-sized drop-counted elements. distinct = distinct CASE lines; non-trivial = the array is non-empty (first integer > 0); fold / rfold of the iterator itself (not of a clone) from every (front, back) position; Debug with up to 97 elements still to come",
    "nontrivial": lambda case, obs: case.split()[0] != "0",
    "manifest": {
        "design_ref": "DESIGN.md section 7, C06",
        "text": "Refinement theorem in Coq: for every iterator state satisfying the bookkeeping invariant, every operation and argument, every length, each step of the iterator hub model returns what a double-ended queue returns and leaves the queue's remaining elements; lifted by induction to all finite histories from into_iter. The hub is tied to /repo by running its OCaml extraction and the real GenericArrayIter on the same histories (exhaustive small scope + seeded long histories).",
        "technique": "machine-checked refinement proof in Coq + extracted-model vs implementation differential correspondence",
    },
}

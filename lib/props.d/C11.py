PROP = {
    "regen_files": ["GenGuards.v", "GenSigs.v"],
    "num": 11,
    "runs": [
        # caller program compiled separately: a 65536 x 65536 grid of zero-sized elements regrouped by reference
        {"tag": "c11huge", "bin": "gcall", "no_default_features": True, "args": ["--prop", "C11"], "model": False, "timeout": 240},
        # the same caller program as c12call: boxed nested arrays flattened / unflattened with method syntax (zero-sized rows too)
        {"tag": "c11call", "bin": "gcall", "no_default_features": True, "args": ["--prop", "C12"], "model": False},{"tag": "c11", "bin": "c11"},
             # optimised build of the same cases: no debug assertions, no overflow checks, inlined unsafe paths
             {"tag": "c11rel", "bin": "c11", "profile": "release", "tiers": ["thorough"]},
             # the reference forms called with method syntax from a separately compiled caller that is generic
             # over the lengths and states only the traits' own bounds (method probing must pick the reference impl)
             {"tag": "c11p", "bin": "c11p", "no_default_features": True},
             # elements that are arrays themselves, result types not annotated (one level is regrouped; a second
             # matching impl would make the call ambiguous); direct oracle
             {"tag": "c11nested", "bin": "c11p", "no_default_features": True, "args": ["--nested"], "model": False}],
    "mismatch_is_failing": True,
    "rule": "flatten for every (N, M) in 0..=6 x 0..=6 plus (1,1024), (1024,1), (16,64); unflatten for every (NM, N) with 0 < N <= 36, N | NM, NM <= 36 plus (1024,1), (1024,16), (1024,64), (1024,1024); each in the owned, & and &mut form, for u32, drop-tracked Tr, zero-sized Tz, a one-byte element with a destructor (Tb) and a 12-byte plain element (Tri). OBS: regrouped ids in order, byte offset of the regrouped reference relative to the source, its total byte extent and length(s); for &mut a write through the regrouped view at flat index first/last/random (thorough: every index when the length is <= 36) and the source read back through its own type; run c11p: the & / &mut forms once more through a separately compiled generic caller (method syntax, only the traits' bounds) on 40 length pairs; direct oracles for leaf-by-leaf address identity, equal byte extent and drop accounting. distinct = distinct CASE lines; non-trivial = both lengths > 0",
    "nontrivial": lambda case, obs: case.split()[3] != "0" and case.split()[4] != "0",
    "manifest": {
        "design_ref": "DESIGN.md section 7, C11",
        "text": "Theorems in Coq for all N, M and element sizes over the nested-array layout given by C01 (row i of GenericArray<GenericArray<T,N>,M> is the cell range [i*N,(i+1)*N)): the owned flatten passes const_transmute's size test, has length N*M and element i*N+j is element j of inner array i; unflatten(flatten a) = a, and flatten(unflatten b) = b with row-major indexing whenever N > 0 divides NM; the reference forms keep the address, take their length from Prod/Quot, cover exactly the same N*M cells (pointer identity leaf by leaf), and a write through either view is the same memory update, read back through the other. Behaviour outside the documented domain (N not dividing NM: size-test panic for sized T, truncation for zero-sized T and for the reference forms) is stated as separate lemmas, not claimed. Tie to the code: extracted model vs the real Flatten/Unflatten impls on all small (N,M) and boundary pairs.",
        "technique": "machine-checked proof in Coq (all N, M, element sizes) + extracted-model vs implementation differential correspondence",
    },
}

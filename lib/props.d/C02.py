PROP = {
    "regen_files": ["GenGuards.v", "GenDeleg.v", "GenSigs.v"],
    "num": 2,
    "runs": [
        # caller program compiled separately: slice methods through auto-deref with the crate's traits glob-imported, slice views of arrays of arrays with an inferred element type
        {"tag": "c02call", "bin": "gcall", "no_default_features": True, "args": ["--prop", "C02"], "model": False},{"tag": "c02", "bin": "c02"},
             # optimised build of the same cases: no debug assertions, no overflow checks, inlined unsafe paths
             {"tag": "c02rel", "bin": "c02", "profile": "release"},
             # slices of zero-sized elements whose length agrees with N only modulo 2^32 (direct oracle:
             # the list model cannot hold 2^32 cells)
             {"tag": "c02huge", "bin": "c02", "args": ["--huge"], "model": False}],
    "mismatch_is_failing": True,
    "rule": "N in {0..12,16,33,64,255,1024} x element types u32, drop-tracked Tr, zero-sized Tz, () and Tri (12 bytes, alignment 4: arrays that do not start at a multiple of the element size; views, write-through for N <= 16, by-value): (0) pointer offset, length and contents of all 12 views (as_slice, as_mut_slice, Deref, DerefMut, Borrow, BorrowMut, AsRef/AsMut to [T] and [T;N], & and &mut iteration) with the array at each of three positions of an enclosing buffer; (1) write-through matrix: write through each of the 6 mutable views at index 0, N/2, N-1, read through each of the 12 views plus a dump of the neighbouring arrays (full matrix for N<=16, quick tier samples index/pairs above; thorough: full everywhere), plus an index one past the end; (2) from_slice, try_from_slice, from_mut_slice, try_from_mut_slice, TryFrom<&[T]>, TryFrom<&mut [T]> for every source length L in 0..=N+3 (quick: boundary L only for N in {255,1024}) with outcome, aliasing offset, contents and write-back into the source buffer, plus From<&[T;N]>/From<&mut [T;N]>; (3) from_array/into_array/From/Into [T;N] and tuples of length 1..=12 both directions with element positions and drop/clone event count. distinct = distinct CASE lines; non-trivial = N > 0",
    "nontrivial": lambda case, obs: len(case.split()) > 3 and case.split()[3] != "0",
    "manifest": {
        "design_ref": "DESIGN.md section 7, C02",
        "text": "Theorems in Coq over an element-granular memory model (Mem.v: bounds- and initialisation-checked cells, GenericArray pointee stride N by C01) and the hub model of every borrowed view and checked reinterpretation computed the way the code computes it, for all N, all addresses, all source lengths L: every view has base p, length N, element i at p+i, in bounds; a write at index i through any view is read back through every other view and changes no other cell; each of the six checked forms succeeds iff L = N and then returns p itself (valid reference to the same cells, no copy), otherwise panics / returns LengthError as the form prescribes; round trips; by-value conversions to/from [T;N] and tuples are the identity on the element list under const_transmute's size test. Tie to the code: extracted model vs the real crate on pointer offsets, lengths, outcomes as a function of (L, N), contents after writes, with direct oracles for iteration addresses and drop accounting.",
        "technique": "machine-checked proof in Coq (all N, all L, all addresses) + extracted-model vs implementation differential correspondence",
    },
}

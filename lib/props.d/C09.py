# Configuration of ./check C09 (fields: see props.d/C06.py).
PROP = {
    "regen_files": ["GenGuards.v", "GenSeq.v", "GenSigs.v"],
    "num": 9,
    "runs": [
        {"tag": "c09", "bin": "c09"},
        # caller programs compiled separately (harness/src/bin/gcall.rs): the operations used from code generic over the
        # lengths / element type with exactly the published impl bounds, and with plain method syntax (direct oracles)
        {"tag": "c09call", "bin": "gcall", "no_default_features": True, "args": ["--prop", "C09"], "model": False},
        # the same cases with the bin rebuilt under AddressSanitizer (nightly): an out-of-bounds read whose
        # value is discarded gives the right answer and is only visible as an aborted case
        {"tag": "c09-asan", "bin": "c09", "args": ["--sanitize"], "expect_cases": False, "timeout": 1500},
        # optimised build: the pointer code after inlining and optimisation
        {"tag": "c09-release", "bin": "c09", "profile": "release", "tiers": ["thorough"]},
        # the cases with N <= 4 interpreted by Miri (aliasing of the by-reference halves, uninitialised reads,
        # out-of-bounds accesses of any size)
        {"tag": "c09-miri", "bin": "c09", "args": ["--miri"], "tiers": ["thorough"], "expect_cases": False, "timeout": 1500},
    ],
    "mismatch_is_failing": True,
    "rule": "exhaustive: append, prepend, pop_back, pop_front, owned/&/&mut split at every K <= N, concat of every (N, M) with N + M <= 8, remove/swap_remove at every index 0..=N+1 and usize::MAX, usize::MAX-1, 2^63, 2^32+1, the unchecked forms at every index < N, for every N in 0..=8; the same at the boundary lengths 15,16,17,31,32,33,63,64,65,255,256,1023,1024 (indices 0, 1, N/2, N-2, N-1, N, N+1, usize::MAX; 16 boundary (N, K) and 15 boundary (N, M) pairs, incl. (2048, 1) and (1, 2048): more than 16 KiB of drop-tracked elements); element types Tz (size 0, tracked), u8, u64, [u64;3], Tr (tracked); once with fixed identities and then with seeded ones (permuted identities, random bytes with duplicates; thorough: 12 rounds), and the fixed pass again under AddressSanitizer; thorough also runs an optimised (release) build and the N <= 4 part under Miri. distinct = distinct CASE lines; non-trivial = the array is non-empty (third integer > 0)",
    "nontrivial": lambda case, obs: case.split()[2] != "0",
    "manifest": {
        "design_ref": "DESIGN.md section 7, C09",
        "text": "Coq theorems over the hub model of src/sequence.rs, in which every operation is the crate's pointer program in element units (stride N for *mut Self, stride 1 for *mut T) over a memory whose every read is bounds- and initialisation-checked and every write/copy bounds-checked: for every list l and every valid position, append l x = l ++ [x], prepend = x :: l, pop_back (l ++ [x]) = (l, x), pop_front (x :: l) = (x, l), split K l = (firstn K l, skipn K l) for every K <= N, concat l m = l ++ m, remove/swap_remove (checked and unchecked) = Vec::remove/Vec::swap_remove stated as list functions for every idx < N, the bounds panic with exactly one drop per element for every idx >= N; no access fails on any input; removed value + result is a permutation of the input and no destructor runs on success; N - idx - 1 does not underflow under the assert (and would without it); the by-reference halves start at the source, are adjacent, cover it, show the source's own cells and do not interfere when written through. Tie to the code: the bodies of all twelve functions are regenerated from src/sequence.rs on every run as typed straight-line pointer programs (coq/gen/GenSeq.v; language and interpreter coq/theories/PtrProg.v) and proved, for every array, element and index, to BE the hub functions (coq/theories/PtrTie.v, C09_source_prog_*), so the Vec equalities are also stated and proved of the regenerated programs themselves (C09_source_*_is_*); the bounds assert and shift count are additionally regenerated as guards (GenGuards.v); extracted model vs the real operations on the same cases (exhaustive small scope, boundary lengths, five element types), direct Vec oracle and drop accounting, AddressSanitizer pass over the fixed-identity cases, and in the thorough tier a release build and a Miri pass (N <= 4).",
        "technique": "machine-checked proof in Coq (all lengths, all positions) + extracted-model vs implementation differential correspondence + Vec oracle + AddressSanitizer / Miri",
    },
}

PROP = {
    "num": 5,
    "runs": [{"tag": "c05", "bin": "c05", "mismatch_is_failing": False},
             # optimised build of the same cases: no debug assertions, no overflow checks, inlined unsafe paths
             {"tag": "c05rel", "bin": "c05", "profile": "release", "tiers": ["thorough"], "mismatch_is_failing": False},
             # an element destructor that panics INSIDE the caller's closure of map/zip/fold and of the
             # iterator's fold/rfold: the intermediate consumer/builder/iterator is torn down by unwinding
             {"tag": "c05forms", "bin": "c04", "features": ["forms"], "args": ["--mode", "1"], "num": 4, "mismatch_is_failing": False,
              "failing_oracle": r"released twice|released \d+ times|unknown identity|panicked without"},
             # the same histories with every iterator method run through the program REGENERATED from
             # src/iter.rs (MuRust interpreter, GenRun.v): the translated source itself is executed
             {"tag": "c05gen", "bin": "c05", "num": 105, "mismatch_is_failing": False},
             # std's provided iterator methods (find, position, any, all, skip_while, filter, max, min_by_key, rev().find,
             # step_by, for_each(drop)) on the by-value iterator while one destructor panics: direct oracles
             {"tag": "c05provided", "bin": "c05", "args": ["--provided"], "model": False, "failing_oracle": r"released twice|handed out and released"},
             # serde: the elements already read are torn down inside deserialize (too short / too long / faulty input
             # from an unhinted source) while one destructor panics: nothing is released twice (direct oracle)
             {"tag": "c05serde", "bin": "c17", "args": ["--bomb"], "model": False}],
    # C05 forbids a second release and a read after release; it ALLOWS leaks of what unwinding abandons.  A disagreement
    # with the model that is not one of those (a leak, a different return value) breaks the correspondence -- the check
    # reports it -- but it is a failing input of C05 only when a direct oracle of the harness (an identity released twice,
    # released and still handed out, unknown identity) fires on it.
    "mismatch_is_failing": True,
    "regen_files": ["GenIter.v"],
    "rule": "exhaustive: N<=6 (thorough 8) x every (front,back) position x {none, next, next_back, nth k, nth_back k for k in 0..=len+2} x every choice of the panicking element (and none) x {drop, count, last}, the caller catching every unwind and then using the iterator again; plus the teardown of the array itself, of ArrayBuilder / IntrusiveArrayBuilder with p slots written and of ArrayConsumer with p elements consumed, for every p and every panicking element; plus the array torn down inside try_from_iter when a source with size_hint (0, None) yields L <> N items (every L in 0..=N+2, every panicking element); plus seeded histories for N in {1,2,3,5,8,16,33}; run c05forms: a destructor panicking inside the caller's closure of map / zip / fold / iterator fold+rfold (every form, every call index); run c05gen: all of the above with the iterator methods and the builder / consumer Drop impls executed through the programs regenerated from the source. distinct = distinct CASE lines; non-trivial = a destructor is armed (second integer >= 0)",
    "nontrivial": lambda case, obs: int(case.split()[1]) >= 0,
    "manifest": {
        "design_ref": "DESIGN.md section 7, C05",
        "text": "Theorem in Coq over the iterator hub model: for every array, every history of next/next_back/nth n/nth_back n with the caller catching each unwind, every way of finishing (drop, count, last) and every choice of the single element whose destructor panics, the release events (destructor runs + moves to the caller) are a permutation of the array's elements - nothing is released twice or moved out after its drop; proved by a conservation invariant per operation, from every (front, back) position. The pre-fix ordering of nth/nth_back is refuted by a kernel-computed witness. Tie to the code: extracted model vs the real iterator with drop-logging elements and an injected destructor panic (exhaustive small scope + seeded), and a direct double-release oracle.",
        "technique": "machine-checked invariant proof in Coq (all histories, all crash points) + extracted-model vs implementation differential correspondence with injected destructor panics",
    },
}

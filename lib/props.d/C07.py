PROP = {
    "regen_files": ["GenGuards.v", "GenCollect.v", "GenSigs.v"],
    "num": 7,
    "runs": [{"tag": "c07", "bin": "c07"},
             # optimised build of the same cases: no debug assertions, no overflow checks, inlined unsafe paths
             {"tag": "c07rel", "bin": "c07", "profile": "release", "tiers": ["thorough"]},
             # the same scripts with ZERO-SIZED drop-tracked items (a Vec of them has capacity usize::MAX and
             # never allocates): identities are reconstructed from the script order when the counts are right
             {"tag": "c07tz", "bin": "c07", "args": ["--elem", "tz"]},
             # the truthfully fused scripts once more from a source that carries the FusedIterator marker (std's
             # Fuse adaptor keeps no flag of its own for such a source: a poll after None reaches it)
             {"tag": "c07fm", "bin": "c07", "args": ["--elem", "fm"]}],
    "mismatch_is_failing": True,
    "rule": "for N in {0,1,2,3,5,8} (thorough adds 16, 33) x the four forms (try_from_iter, try_boxed_from_iter, collect, boxed collect) x every item count 0..=N+3 x eight hint kinds (exact, loose, absent, too-high lower bound, too-low upper bound, lying) x {plain, a source panic at every poll index, a non-fused None at every position}; plus seeded scripts up to N=1025; everything once with sized drop-tracked items (Tr) and once with zero-sized drop-tracked items (Tz). distinct = distinct CASE lines; non-trivial = N > 0 and the script is non-empty",
    "nontrivial": lambda case, obs: case.split()[1] != "0" and len(case.split()) > 4,
    "manifest": {
        "design_ref": "DESIGN.md section 7, C07",
        "text": "Theorems in Coq over the hub model of try_from_iter/from_iter and the boxed forms with the source as an arbitrary script (any, possibly lying, size hint; not necessarily fused; may panic), for every N: Ok iff the hint does not rule N out and exactly N items are followed by the end, element i = i-th item; truthful hints accept; otherwise LengthError; at most N+1 polls, consecutive, never after None; every pulled item is returned or dropped exactly once. Tie to the code: the bodies of IntrusiveArrayBuilder::extend, try_from_iter and try_boxed_from_iter are regenerated from the source on every run (coq/gen/GenCollect.v: size-hint arms, the fill with its zip order and closure statements, the short-circuit Err condition, the ending) and proved, over an arbitrary scripted source, to BE the model's functions -- outcome, destructor runs, number of next() calls (coq/theories/Collect.v, CollectTie.v, C07_source_*); extracted model vs the real functions over scripted iterators of drop-tracked items (exhaustive small scope + seeded up to N=1025), with direct oracles for polls-after-None and item accounting.",
        "technique": "machine-checked proof in Coq (all N, all source scripts) + extracted-model vs implementation differential correspondence with scripted sources",
    },
}

# Configuration of ./check C14 (see props.d/C06.py for the fields).
PROP = {
    "regen_files": ["GenGuards.v", "GenSigs.v", "GenHex.v"],
    "num": 14,
    "runs": [
        {"tag": "c14", "bin": "c14"},
        # caller programs compiled separately (harness/src/bin/gcall.rs): the operations used from code generic over the
        # lengths / element type with exactly the published impl bounds, and with plain method syntax (direct oracles)
        {"tag": "c14call", "bin": "gcall", "no_default_features": True, "args": ["--prop", "C14"], "model": False},
        {"tag": "c14fh", "bin": "c14", "features": ["fasterhex"]},
        # optimised builds (no debug_assert, no UB-check aborts, inlined unsafe paths): thorough only
        {"tag": "c14rel", "bin": "c14", "profile": "release", "tiers": ["thorough"]},
        {"tag": "c14fhrel", "bin": "c14", "features": ["fasterhex"], "profile": "release", "tiers": ["thorough"]},
    ],
    "mismatch_is_failing": True,
    "rule": "case = (upper, precision or none, N, bytes); N in {0..=17, 31, 32, 33, 1023, 1024, 1025, 2047, 2048, 2049, 3000, 4096} (all three strategies and both thresholds). N<=33: none and every precision 0..=2N+2 and 65535 (std::fmt rejects run-time precisions above u16::MAX). Larger N: none, 0..3, every multiple of 2048 digits (the chunk size) +-2 up to 2N+2048, 2N-2..2N+2, 15..17, 30..33, 1023..1025, 32768, 65535 and seeded random precisions (quick: a subset of these, one random pattern for 2047/2048/3000). Both cases; byte patterns all-distinct (i*167+13 mod 256), seeded random (refreshed every 5 cases), and for N<=17 all-0xff and a nibble-asymmetric pattern; every byte value 0..255 in both positions at N=2 and at N=16; plus seeded fully random cases (quick 250, thorough 8000). Every case runs on the real crate without and with feature faster-hex (debug profile; thorough also the release profile of both), OBS = bytes of the formatted string compared with the extracted model, plus a direct oracle against a per-byte {:02x} reference truncated to min(p, 2N). distinct = distinct (run, CASE); non-trivial = N > 0 and at least one character printed",
    "nontrivial": lambda case, obs: case.split()[3] != "0" and len(obs.split()) > 1,
    "manifest": {
        "design_ref": "DESIGN.md section 7, C14",
        "text": "Theorem in Coq about a hub model of src/hex.rs that keeps the crate's constants and arithmetic (max_digits clamp, max_bytes = (d >> 1) + (d & 1), thresholds 16 and 1024, 1024-byte chunks through one reused 2048-byte buffer with the running digits_left): for every byte list of every length, both cases and every precision (none / any usize), the formatter output equals firstn (min p 2N) of the per-byte two-digit string; proved by chunk induction for the third strategy; additionally max_bytes <= N (the unreachable_unchecked is unreachable), every encoder call has 2|src| <= |dst| (unwrap_unchecked never sees Err), digits_left never underflows, only ASCII hex digits reach from_utf8_unchecked, and the result is the same for every encoder satisfying the stated faster_hex contract (feature independence). The hub is tied to /repo (1) by regeneration: tools/ga2coq translates the body of generic_hex, the two fmt impls and the cfg-selected call of hex_encode on every run (coq/gen/GenHex.v) and Coq proves that the regenerated body, run by the interpreter of HexProg.v, equals the hub function for all encoders, cases, byte lists and precisions (C14_source_generic_hex), so the theorems hold of the source text as it stands; (2) by running its OCaml extraction and the real LowerHex/UpperHex impls on the same cases, with the faster-hex feature off and on.",
        "technique": "machine-checked proof in Coq (induction over chunks) + extracted-model vs implementation differential correspondence under both feature configurations",
    },
}

# Configuration of ./check C10 (fields: see props.d/C06.py).
def _const_items_rejected(stderr, hdir):
    """c10c holds one `const` item per case: when the bin does not build, the const items the compiler
    rejected (error locations inside src/bin/c10c.rs) are named as the failing cases."""
    import os
    import re
    src = open(os.path.join(hdir, "src", "bin", "c10c.rs")).read().split("\n")
    item_at = {}
    for i, l in enumerate(src, 1):
        m = re.match(r"\s*const_\w+!\((\w+),", l)
        if m:
            item_at[i] = m.group(1)
    case_of = {}
    for l in src:
        m = re.match(r"\s*cc!\((\w+),\s*([-\d]+),\s*([-\d]+),\s*([-\d]+),\s*([-\d]+),\s*([-\d]+),\s*([-\d]+)\);", l)
        if m:
            case_of[m.group(1)] = " ".join(m.groups()[1:]) + " 0"
    for l in src:
        m = re.match(r"// huge-item: (\w+) => (\d+) (\d+) (\d+)", l)
        if m:
            case_of[m.group(1)] = "8 %s %s %s" % (m.group(2), m.group(3), m.group(4))
    for i, l in enumerate(src, 1):
        m = re.match(r"const (C_HUGE_\w+):", l)
        if m:
            for j in range(i, i + 6):
                item_at[j] = m.group(1)
    out, seen = [], set()
    blocks = re.split(r"\n(?=error)", stderr)
    for b in blocks:
        if not b.startswith("error"):
            continue
        head = b.split("\n")[0]
        names = [item_at.get(int(m.group(1))) for m in re.finditer(r"src/bin/c10c\.rs:(\d+):", b)]
        names += re.findall(r"evaluation of `(\w+)` failed", b)
        names += re.findall(r"\|\s*const_\w+!\((\w+),", b)
        for name in names:
            if name and name in case_of and name not in seen:
                seen.add(name)
                out.append((case_of[name], "the const item %s of this case is rejected at compile time: %s" % (name, head[:300])))
    return out


def _instantiation_rejected(stderr, hdir):
    """The main bin instantiates every (function, element type, length) of its lattice.  When an instantiation is
    rejected at compile time (a `const { assert!(..) }` that fails after monomorphisation, an evaluation error),
    rustc names it: `while instantiating `fn GenericArray::<T, N>::f``.  Those are reported as the cases
    [form, ty, N, 0, 0, 0, 0] (the call on the empty slice), which on an unchanged crate return normally."""
    import re
    forms = {"chunks_from_slice": 0, "chunks_from_slice_mut": 1, "slice_from_chunks": 4, "slice_from_chunks_mut": 5,
             "from_chunks": 6, "into_chunks": 6, "from_chunks_mut": 7, "into_chunks_mut": 7}
    tys = {"u8": 0, "u32": 1, "()": 2, "(u8, u16)": 3}

    def length(t):
        t = t.strip()
        if t.endswith("UTerm") and "UInt" not in t:
            return 0
        m = re.match(r"U(\d+)$", t.split("::")[-1])
        if m:
            return int(m.group(1))
        bits = re.findall(r"B([01])>", t)     # UInt<UInt<UTerm, B1>, B0>: most significant digit first
        if bits:
            return int("".join(bits), 2)
        return None

    out, seen = [], set()
    for m in re.finditer(r"while instantiating `fn (?:generic_array::)?GenericArray::<(.*?), ([^`]*?)>::(\w+)`", stderr):
        elem, ln, f = m.group(1).strip(), m.group(2), m.group(3)
        if f not in forms or elem not in tys:
            continue
        n = length(ln)
        if n is None:
            continue
        case = "%d %d %d 0 0 0 0" % (forms[f], tys[elem], n)
        if case not in seen:
            seen.add(case)
            out.append((case, "GenericArray::<%s, U%d>::%s is rejected at compile time (instantiation error), although the call on the empty slice is in the function's domain" % (elem, n, f)))
    return out


PROP = {
    "regen_files": ["GenGuards.v", "GenSigs.v"],
    "num": 10,
    "runs": [{"tag": "c10", "bin": "c10", "timeout": {"quick": 300, "thorough": 900}, "on_build_failure": _instantiation_rejected},
             # optimised build of the same cases: no debug assertions, no overflow checks, inlined unsafe paths
             {"tag": "c10rel", "bin": "c10", "profile": "release"},
             # the same calls inside `const` items; a separate bin so that a compile-time
             # evaluation error does not take the run-time cases (and their replays) down
             {"tag": "c10const", "bin": "c10c", "timeout": 120, "on_build_failure": _const_items_rejected},
             # chunk lengths of 2^32, 2^33, 2^32 + 3 (the array type is never instantiated): direct oracle
             {"tag": "c10huge", "bin": "c10", "args": ["--huge"], "model": False},
             # caller program compiled separately: the native-array slice views from code generic over `const U`
             {"tag": "c10call", "bin": "gcall", "no_default_features": True, "args": ["--prop", "C10"], "model": False}],
    "mismatch_is_failing": True,
    "rule": "exhaustive: every L in 0..=4N+3 for every N in {0,1,2,3,7,8,16,31,32,33} (thorough: + 64,97,255,1024) x {chunks_from_slice, chunks_from_slice_mut} x element types {u8,u32,(),(u8,u16)}, the slice placed at a varying offset inside a larger buffer; slice_from_chunks(_mut) / from_chunks(_mut)+into_chunks(_mut) for every chunk count 0..=5 (thorough 0..=9) x start array 0..=2 x the same N and types; 28 const items evaluating the same calls at compile time (compared with the run-time result); plus seeded random positions/lengths. Observed: pointer offsets and lengths of every returned part, contents read through every view, write-through of the mutable forms (the chunk views, the remainder and the re-flattened view of slice_from_chunks_mut, at run time and inside the const items) read back from the buffer, panic flag. Run c10call: a separately compiled caller generic over `const U: usize` (bound `Const<U>: IntoArrayLength` only) takes the four native-array slice views and slice_from_chunks for U in {1,3,8,16}: addresses, counts, write-through. distinct = distinct CASE lines; non-trivial = N > 0 and at least one whole chunk (forms 0,1: L >= N; other forms: count > 0)",
    "nontrivial": lambda case, obs: (lambda c: len(c) == 7 and c[2] > 0 and ((c[4] >= c[2]) if c[0] % 10 < 2 else c[4] > 0))([int(x) for x in case.split()]),
    "manifest": {
        "design_ref": "DESIGN.md section 7, C10",
        "text": "Theorems in Coq about an element-granular model with exactly the code's arithmetic (N = 0 branch, len / N, * N, len - ..., pointer add): for every slice length L < 2^64 and every N > 0 the result is floor(L/N) arrays at the slice's address followed by L mod N elements right after them; element k of the slice is element k mod N of array k / N or element k - floor(L/N)*N of the remainder, and conversely (cover, same order, no overlap, nothing beyond the end); the multiplication stays below 2^64 and the subtraction does not underflow; slice_from_chunks is the inverse both ways under the explicit side condition C*N < 2^64 (derived from the object-size limit for sized elements, shown not to hold for zero-sized ones); N = 0: empty -> two empty results, non-empty -> panic; over list contents: concat(chunks) ++ remainder = slice elements, and writes through the mutable views are read back through the original slice with nothing outside it changed; from_chunks/into_chunks keep address and count. The model is tied to /repo by running its OCaml extraction and the real functions on the same cases (run time and const evaluation).",
        "technique": "machine-checked proof in Coq (algebra + induction on the chunk count) + extracted-model vs implementation differential correspondence incl. compile-time evaluation",
    },
}

PROP = {
    "regen_files": ["GenGuards.v", "GenHeap.v", "GenSigs.v"],
    "num": 15,
    "runs": [
        {"tag": "c15", "bin": "c15"},
        # the clause the hub cannot express: multi-MiB boxed constructions on a 256 KiB stack (debug build)
        {"tag": "c15big", "bin": "c15", "args": ["--big"], "model": False, "timeout": 300},
        # caller program compiled separately: box_arr! as a boxed constructor (empty list, generic length, one
        # evaluation of the repeat operand, 32 MiB)
        {"tag": "c15call", "bin": "gcall", "no_default_features": True, "args": ["--prop", "C15"], "model": False},
    ],
    "mismatch_is_failing": True,
    "rule": "every operation of src/impl_alloc.rs and box_arr! (18 operation codes) x three element kinds (8-byte tracked, zero-sized tracked, u32) x N in {0,1,2,3,8,16,33,1024} x source lengths {0, N-1, N, N+1} x spare capacity {0,1,5} (Vec sources) x size hints {exact, absent} (iterator sources) x items taken {0, N/2, N} (boxed into_iter); plus seeded source lengths / spare capacities around every N; plus (run c15big, no model) six constructions of 4-32 MiB arrays on a thread with a 256 KiB stack. Run c15call: a separately compiled caller program using box_arr! as a boxed constructor (the empty list, a trailing comma, lengths that are type parameters of the caller, a repeat operand with a side effect evaluated once, a 32 MiB array handed on to into_vec). distinct = distinct CASE lines; non-trivial = N > 0",
    "nontrivial": lambda case, obs: case.split()[2] != "0",
    "manifest": {
        "design_ref": "DESIGN.md section 7, C15",
        "text": "Theorems in Coq over a heap model (blocks with size/alignment, allocator event trace) of every conversion in src/impl_alloc.rs and box_arr!, for every N including 0, every element size including 0, every source length and capacity: contents and order preserved; Ok exactly when the source length is N, otherwise LengthError with every source element dropped exactly once; into_boxed_slice, into_vec, try_from_boxed_slice and try_from_vec (len = cap) return the same block with zero allocator events; layouts agree. Tie to the code: extracted model vs the real functions under a recording global allocator (block identity, allocator calls during the conversion, contents, drops). NOT expressible in the hub and established only by the run: the boxed constructors build multi-MiB arrays on a thread with a 256 KiB stack (debug build). T3 tie: the bodies of into_boxed_slice, into_vec, try_from_boxed_slice, try_from_vec, TryFrom<Vec<T>>, TryFrom<Box<[T]>>, From<GenericArray> for Box<[T]> / Vec<T> are regenerated from src/impl_alloc.rs on every run (coq/gen/GenHeap.v) and proved, from every allocator state, to be the hub functions (coq/theories/HeapProg.v, HeapTie.v, C15_source_*).",
        "technique": "machine-checked proof in Coq (all N, sizes, lengths, capacities) + extracted-model vs implementation differential correspondence with a recording global allocator + small-stack run",
    },
}

# Configuration of ./check C13 (fields: see props.d/C06.py).
PROP = {
    "regen_files": ["GenDeleg.v", "GenSigs.v"],
    "num": 13,
    "runs": [{"tag": "c13", "bin": "c13"},
             # caller programs compiled separately: comparisons whose other operand is inferred from the array; hashing /
             # ordering / Debug from code generic over T and N, map lookups through the slice for enum, [u8; 1], &String,
             # bool and char elements
             {"tag": "c13call", "bin": "gcall", "no_default_features": True, "args": ["--prop", "C13"], "model": False},
             {"tag": "c13-release", "bin": "c13", "profile": "release", "tiers": ["thorough"]}],
    "mismatch_is_failing": True,
    "rule": "pair cases (==, !=, partial_cmp, <, <=, >, >=, cmp, HashMap/BTreeMap lookups through &[T]): ALL ordered pairs of arrays of equal length N in 0..=4 over a 3-letter alphabet per element type (f64: 4 letters NaN/0.0/1.5/-0.0 for N<=3; thorough: 4 letters for N<=4 and 3 letters for N=5), element types u8, i32, f64, String, GenericArray<u8,U2>, Kv (== on both fields, ordered by the key), i8 (one byte, signed order), Wb (one byte with a hand-written two-call Hash), To (total Ord, partial PartialOrd); plus seeded pairs (equal / differing at one or two positions / independent) for N in {5,8,15,16,17,31,32,33,64,65} (one class differs exactly at the last or first position). single cases (Borrow/AsRef/BorrowMut/AsMut views, exact call stream received by a recording Hasher, Debug under {:?} {:#?} {:5?} {:.2?} {:08.3?} {:#7.1?}): ALL arrays for N<=3 over 5 letters and N=4 over 4 letters, plus seeded arrays for the same N (integers: arbitrary values). one array of 1025 elements per u8 / String / Wb (single case, equal pair, pair differing at the last element); caller programs compiled separately (c13call). thorough repeats everything with the harness built in release mode (opt-level 2). distinct = distinct CASE lines; non-trivial = the arrays are non-empty (third integer > 0); element type Kv {k, v} whose == looks at both fields and whose ordering looks at the key only",
    "nontrivial": lambda case, obs: case.split()[2] != "0",
    "manifest": {
        "design_ref": "DESIGN.md section 7, C13",
        "text": "Coq theorems for arrays of every length and every element type given by its ==/partial_cmp/cmp/hash/Debug functions: the GenericArray impls of PartialEq, PartialOrd, Ord, Hash, Debug, Borrow, BorrowMut, AsRef, AsMut (modelled as the delegations src/impls.rs contains) return exactly what the slice specification returns (length test + element-wise ==; lexicographic order over a PARTIAL element order with incomparable elements such as NaN, ties broken by length; hasher feed = length prefix then hash_slice; debug_list formatting with the caller's flags), hence a key is found in a map keyed by (hash feed, ==) or by cmp through its Borrow<[T]> form; the slice specification is itself characterised (first difference decides, abstract lexicographic order, eq <-> partial_cmp = Some Equal, antisymmetry, transitivity, proper prefix is Less, length prefix makes feeds of different lengths differ). The model is tied to /repo by running its OCaml extraction and the real impls on the same arrays: the model computes every comparison result, the hasher call stream, the lookups and the Debug strings from the element codes (third voice), the harness additionally compares the array's impls with the slice of the same elements directly.",
        "technique": "machine-checked proof in Coq (delegation + characterisation of the slice specification) + extracted-model vs implementation differential correspondence with direct array-vs-slice oracles",
    },
}

PROP = {
    "num": 16,
    "runs": [{"tag": "c16", "bin": "c16", "timeout": {"quick": 600, "thorough": 1500}}],
    "mismatch_is_failing": True,
    "rule": "every operation of src/impl_alloc.rs and box_arr! (18 operation codes; each run = build the sources, the operation, drop the result) x three element kinds (8-byte tracked, zero-sized tracked, u32) x N in {0,1,2,3,8,16,33,1024} x source lengths {0, N-1, N, N+1} x spare capacity {0,1,5} x size hints x an injected panic at every closure call / source poll / default() call (N <= 33; five indices for 1024 in the quick tier, about fifty in the thorough tier) x an injected allocation failure at every allocation index 0..3 of the run (each in a child process under a timeout); plus seeded cases. Compared: outcome, allocator call counts, zero-size requests, layout mismatches, live blocks at the end, requested sizes, identities dropped during the operation; for failing allocations the class of the child's exit. distinct = distinct CASE lines; non-trivial = N > 0",
    "nontrivial": lambda case, obs: case.split()[2] != "0",
    "manifest": {
        "design_ref": "DESIGN.md section 7, C16",
        "text": "Theorems in Coq over the heap model, for every alloc-feature operation, every N including 0, zero- and non-zero-sized elements, a panic at any closure call and a failure of any allocation, from any starting heap: the allocator trace is valid (every request has a non-zero size, every release names a live block with the size and alignment it was requested with, at most once), the live heap is back to what it was once all values are gone (also after a caught panic), an allocation failure always ends in the standard allocation-error outcome and nothing touches the null block. The boxed generate of 614d235 is kept as boxed_generate_buggy with three refutation lemmas (zero-size request, null dereference, leak on panic). Tie to the code: extracted model vs the real functions under a recording global allocator, injected panics, and one child process per failing allocation.",
        "technique": "machine-checked proof in Coq (all operations, lengths, sizes, panic points, failing allocations) + extracted-model vs implementation differential correspondence with a recording / failing global allocator and child processes",
    },
}

# Configuration of ./check C17 (fields: see props.d/C06.py).
PROP = {
    "regen_files": ["GenGuards.v", "GenSigs.v", "GenSerde.v"],
    "num": 17,
    "runs": [{"tag": "c17", "bin": "c17"},
             # optimised build of the same cases: no debug assertions, no overflow checks, inlined unsafe paths
             {"tag": "c17rel", "bin": "c17", "profile": "release", "tiers": ["thorough"]},
             # caller programs compiled separately (harness/src/bin/gcall.rs): the operations used from code generic over the
             # lengths / element type with exactly the published impl bounds, and with plain method syntax (direct oracles)
             {"tag": "c17call", "bin": "gcall", "no_default_features": True, "args": ["--prop", "C17"], "model": False}],
    "mismatch_is_failing": True,
    "rule": "scripted Deserializer/SeqAccess: every element count 0..=N+2 x up-front hint (none, N, N-1, N+1, the count, 0) x hint-after behaviour (none, truthful countdown, constant 0, constant 7, countdown from N) x tail (nothing / error) x a fault (SeqAccess error, element type error, early 'nothing') at every index, exhaustively for N<=3 (thorough: N<=8), boundary indices for N in {5,8,16,33}; JSON text, bincode and serde_json::Value inputs with every count 0..=N+2 and an unparsable element at every index; serialisation through a recording Serializer, JSON, bincode and Value; element types u8, f64, drop-tracked Tr and a zero-sized drop-tracked type (destructor runs counted, identities reconstructed from creation order); plus seeded random scripts. distinct = distinct CASE lines; non-trivial = N > 0 and at least one item offered",
    "nontrivial": lambda case, obs: case.split()[2] != "0" and case.split()[7] != "0",
    "manifest": {
        "design_ref": "DESIGN.md section 7, C17",
        "text": "Coq theorems over the hub model of impl_serde.rs, for every length N and every scripted SeqAccess (not assumed fused or truthful): the serializer emits serialize_tuple(N), the N elements in index order, end (no length prefix in a non-self-describing encoding); deserialising the serializer's output returns the same array with no drops; acceptance holds iff the up-front hint does not contradict N, the first N reads deliver elements and the input ends there (hint or probe); a wrong up-front hint, a short input, a surplus element (unless the source claims 'nothing left', the excluded case, stated as a hypothesis) and a parse error at any index are rejected; on every rejection the destructor trace is exactly one drop per element read, on success none; at most N+1 reads; no uninitialised slot is read or dropped. The model is tied to /repo by running its OCaml extraction and the real impl on the same scripts (scripted Deserializer, serde_json, bincode, serde_json::Value) with drop-tracked elements.",
        "technique": "machine-checked proof in Coq (induction over the fill loop, all N and all scripts) + extracted-model vs implementation differential correspondence",
    },
}

PROP = {
    "regen_files": ["GenDeleg.v", "GenPipe.v", "GenSigs.v"],
    "num": 8,
    "runs": [{"tag": "c08", "bin": "c08", "features": ["forms"]},
             # caller programs compiled separately (harness/src/bin/gcall.rs): the operations used from code generic over the
             # lengths / element type with exactly the published impl bounds, and with plain method syntax (direct oracles)
             {"tag": "c08call", "bin": "gcall", "no_default_features": True, "args": ["--prop", "C08"], "model": False}],
    "mismatch_is_failing": True,
    "rule": "N in {0,1,2,3,4,5,6,16,33,97} x element type with (Tr) and without (u32) drop glue x map x4 forms, zip x9 stack forms + Box x Box, fold x4, generate x4, Clone, Default; recording closures log (call index, arguments); compared as sequences with the model's call log and results. Default runs in two forms (GenericArray::default(), default_boxed()) with Tr and with Sd: plain, not zero-sized, a stateful Default (serial numbers) whose first value is the all-zero bit pattern. distinct = distinct CASE lines; non-trivial = N > 0",
    "nontrivial": lambda case, obs: case.split()[3] != "0",
    "manifest": {
        "design_ref": "DESIGN.md section 7, C08",
        "text": "Theorems in Coq over the hub model of generate/map/zip/fold/Clone/Default (every receiver/argument form is an instance of one pipeline model differing only in ownership): for every length the function is called exactly once per index in ascending order, result i = f i (row i), fold = the left fold, and results and call order are identical for every form. Tie to the code: extracted model vs the real operations in all forms with recording closures (call order compared as sequences), for element types with and without drop glue (different internal branches). T3 tie: the bodies of map / fold / inverted_zip / inverted_zip2 / generate (src/lib.rs) and of the boxed generate (src/impl_alloc.rs) are regenerated from the source on every run as pipeline programs (coq/gen/GenPipe.v: sources iterated in lockstep with their ArrayConsumer / builder position variables, the closure statement by statement, the sink) and executed by an operational interpreter (coq/theories/Pipe.v) that only knows what the Drop impls do with the positions as they are; coq/theories/PipeTie.v proves, for every input, caller function and panic point, that they give exactly the list-level meaning the theorems are about (C08_source_*).",
        "technique": "machine-checked proof in Coq (all lengths, all forms) + extracted-model vs implementation differential correspondence of call logs",
    },
}

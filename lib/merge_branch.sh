#!/bin/bash
# merge_branch.sh <branch>: merge a builder branch; generated registry files are regenerated, never merged by hand
set -u
cd /verif
git merge --no-edit "$1" >/dev/null 2>&1
for f in coq/_CoqProject coq/theories/Corr.v MANIFEST.json; do
  git checkout --ours "$f" 2>/dev/null
done
python3 lib/gen.py --manifest
git add -A
if git grep -n -E '^(<<<<<<<|>>>>>>>) ' -- . ':!lib/merge_branch.sh' | head -5 | grep -q .; then echo "CONFLICT MARKERS LEFT"; exit 1; fi
git commit -qm "merge $1" && echo "merged $1"

"""pin.py -- pins the STATEMENTS of the property theorems (coq/properties/C*.v).
A statement may only change together with a deliberate re-pin (`python3 lib/pin.py --update`,
committed); ./check compares the current statements with coq/pinned/statements.json and
reports a problem when one was changed, removed or weakened silently."""
import glob
import hashlib
import json
import os
import re
import sys

VERIF = os.path.dirname(os.path.dirname(os.path.abspath(__file__)))
PIN = os.path.join(VERIF, "coq", "pinned", "statements.json")


def statements(pid):
    p = os.path.join(VERIF, "coq", "properties", "%s.v" % pid)
    if not os.path.exists(p):
        return {}
    src = open(p).read()
    # strip comments
    out, depth, i = [], 0, 0
    while i < len(src):
        if src.startswith("(*", i):
            depth += 1; i += 2
        elif src.startswith("*)", i) and depth:
            depth -= 1; i += 2
        else:
            if not depth:
                out.append(src[i])
            i += 1
    src = "".join(out)
    res = {}
    for m in re.finditer(r"(Theorem|Corollary)\s+(\w+)(.*?)\n\s*Proof\.", src, re.S):
        text = " ".join(m.group(3).split())
        res[m.group(2)] = hashlib.sha256(text.encode()).hexdigest()[:16]
    return res


def current():
    res = {}
    for p in sorted(glob.glob(os.path.join(VERIF, "coq", "properties", "C*.v"))):
        pid = os.path.basename(p)[:-2]
        res[pid] = statements(pid)
    return res


def compare(pid):
    """returns list of problems for one property"""
    if not os.path.exists(PIN):
        return ["coq/pinned/statements.json missing"]
    pinned = json.load(open(PIN)).get(pid, {})
    cur = statements(pid)
    probs = []
    for name, h in pinned.items():
        if name not in cur:
            probs.append("pinned theorem %s.%s no longer exists" % (pid, name))
        elif cur[name] != h:
            probs.append("statement of %s.%s differs from the pinned one" % (pid, name))
    return probs


if __name__ == "__main__":
    if "--update" in sys.argv:
        os.makedirs(os.path.dirname(PIN), exist_ok=True)
        json.dump(current(), open(PIN, "w"), indent=1, sort_keys=True)
        print("pinned", sum(len(v) for v in current().values()), "statements")
    else:
        bad = [x for pid in current() for x in compare(pid)]
        print("\n".join(bad) or "all statements match the pins")
        sys.exit(1 if bad else 0)

"""core.py -- the driver behind ./check (see DESIGN.md section 3)."""
import fcntl
import hashlib
import json
import os
import re
import subprocess
import sys
import time

VERIF = os.path.dirname(os.path.dirname(os.path.abspath(__file__)))
REPO = os.environ.get("VERIF_REPO", "/repo")
BUILD = os.path.join(VERIF, ".build")
OUT = os.path.join(VERIF, "out")
COQ = os.path.join(VERIF, "coq")
HARNESS = os.path.join(VERIF, "harness")
TOOLS = os.path.join(VERIF, "tools")

FORBIDDEN = [
    r"\bAdmitted\b", r"\badmit\b", r"\bAxiom\b", r"\bAxioms\b", r"\bParameter\b", r"\bParameters\b",
    r"\bConjecture\b", r"\bAdmit Obligations\b", r"Unset\s+Guard", r"bypass_check", r"type-in-type",
    r"impredicative-set", r"Unset\s+Universe\s+Checking", r"Unset\s+Positivity", r"\bgive_up\b",
]
# Section-local Variable/Hypothesis are allowed; outside a section they declare axioms.
TRUSTED_BASE = [
    "Coq 8.16.1 kernel (coqc, full .vo build via coq_makefile; vm_compute only on finite extracted data and _refuted witnesses; no native_compute)",
    "axioms: none expected -- every property theorem is checked to print 'Closed under the global context'",
    "translator tools/ga2coq (syn-based, fail-closed) for coq/gen/*.v",
    "extraction: ExtrOcamlBasic only (Extract Inductive bool/option/unit/list/prod/sumbool/sumor; Extract Inlined Constant for their eliminators as shipped with Coq); numbers stay Coq datatypes; ocaml/driver.ml",
    "correspondence harness (harness/, rustc/cargo 1.95.0) and this Python driver",
    "modelled not verified: Rust language semantics the hub states as definitions (layout rules, unwinding/drop order, core/alloc behaviour), see DESIGN.md section 9",
]


def log(msg):
    sys.stderr.write(msg + "\n")
    sys.stderr.flush()


def sh(cmd, timeout, cwd=None, env=None, stdin_path=None, stdout_path=None):
    """Run a command under a timeout. Returns (rc, stdout, stderr); rc=124 on timeout."""
    e = dict(os.environ)
    e.setdefault("CARGO_NET_OFFLINE", "true")
    if env:
        e.update(env)
    fin = open(stdin_path, "rb") if stdin_path else subprocess.DEVNULL
    fout = open(stdout_path, "wb") if stdout_path else subprocess.PIPE
    try:
        p = subprocess.run(cmd, cwd=cwd, env=e, stdin=fin, stdout=fout, stderr=subprocess.PIPE,
                           timeout=timeout)
        out = "" if stdout_path else p.stdout.decode("utf-8", "replace")
        return p.returncode, out, p.stderr.decode("utf-8", "replace")
    except subprocess.TimeoutExpired as ex:
        err = (ex.stderr or b"").decode("utf-8", "replace") if ex.stderr else ""
        return 124, "", err + "\n<timeout after %ss>" % timeout
    finally:
        if stdin_path:
            fin.close()
        if stdout_path:
            fout.close()


class Lock:
    """flock over the shared build outputs so parallel checks do not corrupt them."""

    def __init__(self, name="build"):
        os.makedirs(BUILD, exist_ok=True)
        self.path = os.path.join(BUILD, name + ".lock")

    def __enter__(self):
        self.f = open(self.path, "w")
        fcntl.flock(self.f, fcntl.LOCK_EX)
        return self

    def __exit__(self, *a):
        fcntl.flock(self.f, fcntl.LOCK_UN)
        self.f.close()


# ---------------------------------------------------------------- translator

def regen(repo=None):
    """Run ga2coq on <repo>/src, rewriting coq/gen/*.v only when content changes."""
    import regen as regen_mod
    return regen_mod.run(repo or REPO, COQ, BUILD, sh, Lock, log)


# ---------------------------------------------------------------- Coq

def strip_comments(src):
    out, depth, i = [], 0, 0
    while i < len(src):
        if src.startswith("(*", i):
            depth += 1
            i += 2
        elif src.startswith("*)", i) and depth > 0:
            depth -= 1
            i += 2
        else:
            if depth == 0:
                out.append(src[i])
            elif src[i] == "\n":
                out.append("\n")
            i += 1
    return "".join(out)


def forbidden_scan():
    """No Admitted/admit/Axiom/Parameter/... anywhere in the development; Variable /
    Hypothesis only inside sections."""
    hits = []
    for root, _, files in os.walk(COQ):
        for fn in files:
            if not fn.endswith(".v"):
                continue
            p = os.path.join(root, fn)
            src = strip_comments(open(p).read())
            # strings (idtac markers) cannot contain the forbidden words either: keep it simple
            for pat in FORBIDDEN:
                for m in re.finditer(pat, src):
                    line = src.count("\n", 0, m.start()) + 1
                    hits.append("%s:%d: %s" % (os.path.relpath(p, VERIF), line, m.group(0)))
            depth = 0
            for ln, line in enumerate(src.split("\n"), 1):
                s = line.strip()
                if re.match(r"Section\s+\w+", s):
                    depth += 1
                elif re.match(r"End\s+\w+", s) and depth > 0:
                    depth -= 1
                elif depth == 0 and re.match(r"(Variables?|Hypothes[ie]s|Context)\b", s):
                    hits.append("%s:%d: %s outside a section" % (os.path.relpath(p, VERIF), ln, s.split()[0]))
    return hits


def coq_flags():
    flags = []
    for line in open(os.path.join(COQ, "_CoqProject")):
        t = line.split()
        if t[:1] == ["-Q"] or t[:1] == ["-R"]:
            flags += [t[0], os.path.join(COQ, t[1]), t[2]]
    return flags


def coq_makefile_fresh():
    mk = os.path.join(COQ, "Makefile")
    cp = os.path.join(COQ, "_CoqProject")
    if not os.path.exists(mk) or os.path.getmtime(mk) < os.path.getmtime(cp):
        sh(["coq_makefile", "-f", "_CoqProject", "-o", "Makefile"], 60, cwd=COQ)


def enclosing_lemma(vfile, line):
    name = None
    try:
        for ln, text in enumerate(open(vfile), 1):
            m = re.match(r"\s*(Theorem|Lemma|Corollary|Example|Definition|Fixpoint|Proposition)\s+(\w+)", text)
            if m:
                name = m.group(2)
            if ln >= line:
                break
    except OSError:
        pass
    return name


def coq_build(targets, timeout):
    """make the given .vo targets. Returns (ok, broken) with broken = list of
    {file, line, lemma, message}."""
    coq_makefile_fresh()
    rc, out, err = sh(["make", "-j8"] + targets, timeout, cwd=COQ)
    if rc == 0:
        return True, []
    text = out + "\n" + err
    broken = []
    for m in re.finditer(r'File "([^"]+)", line (\d+), characters [\d-]+:\n((?:.*\n)*?)(?=\n|make|File|\Z)', text):
        f, ln, msg = m.group(1), int(m.group(2)), m.group(3)
        if "Warning" in msg.split("\n")[0]:
            continue
        vf = os.path.normpath(os.path.join(COQ, f))
        broken.append({"file": os.path.relpath(vf, VERIF), "line": ln,
                       "lemma": enclosing_lemma(vf, ln), "message": msg.strip()[:600]})
    if not broken:
        broken.append({"file": "?", "line": 0, "lemma": None, "message": text[-800:]})
    return False, broken


def theorem_names(prop_file):
    names = []
    for text in open(prop_file):
        m = re.match(r"\s*(Theorem|Corollary)\s+(\w+)", text)
        if m:
            names.append(m.group(2))
    return names


def print_assumptions(pid, names, timeout=300):
    """Compile a scratch file printing the assumptions of every property theorem.
    Returns {name: 'closed' | [axiom, ...] | 'missing'}."""
    d = os.path.join(OUT, "assume")
    os.makedirs(d, exist_ok=True)
    vf = os.path.join(d, "Assume_%s.v" % pid)
    with open(vf, "w") as f:
        f.write("From GAProp Require %s.\n" % pid)
        for n in names:
            f.write('Goal True. idtac "@@BEGIN %s". Abort.\n' % n)
            f.write("Print Assumptions %s.%s.\n" % (pid, n))
        f.write('Goal True. idtac "@@END". Abort.\n')
    rc, out, err = sh(["coqc", "-q"] + coq_flags() + [vf], timeout, cwd=d)
    res = {n: "missing" for n in names}
    if rc != 0:
        return res, (out + err)[-600:]
    cur, buf = None, []
    for line in out.split("\n"):
        m = re.match(r"@@BEGIN (\w+)", line)
        if m or line.startswith("@@END"):
            if cur:
                txt = "\n".join(buf)
                if "Closed under the global context" in txt:
                    res[cur] = "closed"
                else:
                    res[cur] = re.findall(r"^(\S+)\s*:", txt, re.M) or ["<unparsed>"]
            cur, buf = (m.group(1) if m else None), []
        else:
            buf.append(line)
    return res, ""


def coqchk(pid, timeout=1800):
    """Independent re-check of the property's compiled closure; lists the axioms it relies on."""
    rc, out, err = sh(["coqchk", "-silent", "-o"] + coq_flags() + ["GAProp.%s" % pid], timeout, cwd=COQ)
    text = out + err
    axioms = []
    m = re.search(r"\* Axioms:\s*(.*?)(?:\n\s*\*|\Z)", text, re.S)
    if m:
        body = m.group(1).strip()
        if not body.startswith("<none>"):
            axioms = [l.strip() for l in body.split("\n") if l.strip()]
    return {"ok": rc == 0 and not axioms, "rc": rc, "axioms": axioms, "tail": text[-400:]}


# ---------------------------------------------------------------- model runner

def model_build(pid):
    """(Re)build the OCaml runner of the property's extracted hub entry points when they changed."""
    d = os.path.join(BUILD, "ocaml", pid)
    os.makedirs(d, exist_ok=True)
    src_ml = os.path.join(COQ, "model_%s.ml" % pid)
    exe = os.path.join(d, "model_run")
    drv = os.path.join(VERIF, "ocaml", "driver.ml")
    if not os.path.exists(src_ml):
        return None, "coq/model_%s.ml missing (extraction did not run)" % pid
    newest = max(os.path.getmtime(src_ml), os.path.getmtime(drv))
    if os.path.exists(exe) and os.path.getmtime(exe) >= newest:
        return exe, ""
    for f, g in (("model_%s.ml" % pid, "model.ml"), ("model_%s.mli" % pid, "model.mli")):
        with open(os.path.join(COQ, f), "rb") as a, open(os.path.join(d, g), "wb") as b:
            b.write(a.read())
    with open(drv, "rb") as a, open(os.path.join(d, "driver.ml"), "wb") as b:
        b.write(a.read())
    rc, out, err = sh(["ocamlfind", "ocamlopt", "-O2", "-w", "-a", "model.mli", "model.ml", "driver.ml",
                       "-o", "model_run"], 600, cwd=d)
    if rc != 0:
        return None, (out + err)[-800:]
    return exe, ""


def model_run(exe, num, cases, workdir, tag):
    """cases: list of int lists. Returns list of observable strings."""
    inp = os.path.join(workdir, tag + ".cases.txt")
    outp = os.path.join(workdir, tag + ".model.txt")
    with open(inp, "w") as f:
        for c in cases:
            f.write("%d %s\n" % (num, c))
    rc, _, err = sh(["bash", "-c", "ulimit -s unlimited 2>/dev/null; exec %s" % exe], 1800,
                    stdin_path=inp, stdout_path=outp)
    lines = open(outp).read().split("\n")
    if lines and lines[-1] == "":
        lines.pop()
    return rc, lines, err


# ---------------------------------------------------------------- harness

def harness_dir():
    """The harness crate depends on /repo by path.  When VERIF_REPO points somewhere
    else (a scratch worktree carrying a seeded change) a shadow copy of the crate
    manifest with that path is used; sources are shared."""
    if os.path.realpath(REPO) == "/repo":
        return HARNESS, ""
    tagname = hashlib.sha1(os.path.realpath(REPO).encode()).hexdigest()[:8]
    d = os.path.join(BUILD, "harness-shadow-" + tagname)
    os.makedirs(d, exist_ok=True)
    toml = open(os.path.join(HARNESS, "Cargo.toml")).read().replace('path = "/repo"', 'path = "%s"' % os.path.realpath(REPO))
    if not os.path.exists(os.path.join(d, "Cargo.toml")) or open(os.path.join(d, "Cargo.toml")).read() != toml:
        open(os.path.join(d, "Cargo.toml"), "w").write(toml)
    lock = open(os.path.join(HARNESS, "Cargo.lock")).read()
    open(os.path.join(d, "Cargo.lock"), "w").write(lock)
    if not os.path.islink(os.path.join(d, "src")):
        os.symlink(os.path.join(HARNESS, "src"), os.path.join(d, "src"))
    return d, "-" + tagname


def harness_build(bin_name, features, profile, timeout=1800):
    hdir, suffix = harness_dir()
    target = os.path.join(BUILD, "harness-target" + suffix + ("-" + "-".join(features) if features else ""))
    cmd = ["cargo", "build", "--offline", "--bin", bin_name]
    if profile == "release":
        cmd.append("--release")
    if features:
        cmd += ["--features", ",".join(features)]
    env = {"CARGO_TARGET_DIR": target, "RUSTFLAGS": os.environ.get("VERIF_RUSTFLAGS", "")}
    if not env["RUSTFLAGS"]:
        del env["RUSTFLAGS"]
    rc, out, err = sh(cmd, timeout, cwd=hdir, env=env)
    exe = os.path.join(target, "release" if profile == "release" else "debug", bin_name)
    if rc != 0:
        lines = err.split("\n")
        keep = []
        for i, l in enumerate(lines):
            if l.startswith("error"):
                keep += lines[i:i + 14]
        return None, "\n".join(keep[:80]) or err[-1500:]
    return exe, ""


def parse_harness(path):
    """Returns (records, dist, notes); records = list of dict(case, obs, oracle[])."""
    recs, dist, notes = [], {}, []
    cur = None
    with open(path, errors="replace") as f:
        for line in f:
            line = line.rstrip("\n")
            if line.startswith("CASE "):
                cur = {"case": line[5:].strip(), "obs": None, "oracle": []}
                recs.append(cur)
            elif line == "CASE":
                cur = {"case": "", "obs": None, "oracle": []}
                recs.append(cur)
            elif line.startswith("OBS") and cur is not None:
                cur["obs"] = line[3:].strip()
            elif line.startswith("ORACLE ") and cur is not None:
                cur["oracle"].append(line[7:])
            elif line.startswith("DIST "):
                t = line.split()
                if len(t) == 3:
                    dist[t[1]] = dist.get(t[1], 0) + int(t[2])
            elif line.startswith("NOTE "):
                notes.append(line[5:])
    return recs, dist, notes


# ---------------------------------------------------------------- findings

def known_findings():
    res = {}
    p = os.path.join(VERIF, "known_findings.txt")
    if os.path.exists(p):
        for line in open(p):
            m = re.match(r"finding:\s+property=(\S+)\s+key=(\S+)\s+(.*)", line.strip())
            if m:
                res[(m.group(1), m.group(2))] = m.group(3)
    return res


def case_key(run_tag, case):
    return "%s:%s" % (run_tag, case.replace(" ", ","))


# ---------------------------------------------------------------- main

def main(argv):
    import props
    if not argv:
        print(__doc__)
        return 2
    pid = argv[0]
    tier = os.environ.get("VERIF_TIER", "quick")
    seed = int(os.environ.get("VERIF_SEED", "0") or 0)
    replay = None
    i = 1
    while i < len(argv):
        if argv[i] == "--tier":
            tier = argv[i + 1]; i += 2
        elif argv[i] == "--seed":
            seed = int(argv[i + 1]); i += 2
        elif argv[i] == "--replay":
            replay = argv[i + 1]; i += 2
        else:
            i += 1
    if pid not in props.PROPS:
        print("unknown property %s" % pid)
        return 2
    P = props.PROPS[pid]
    if replay:
        return do_replay(pid, P, replay)
    t0 = time.time()
    workdir = os.path.join(OUT, "run", pid)
    os.makedirs(workdir, exist_ok=True)
    os.makedirs(os.path.join(OUT, "replay"), exist_ok=True)

    problems = []      # every way in which the property is "not shown to hold"
    failing = []       # concrete failing inputs {run, case, why, impl, model}
    ev = {"theorems": {}, "regen": {}, "runs": [], "notes": []}
    known_hit = {}
    nonfailing_mismatch = []

    # 1. regenerate the model parts that come from the source, 2. proofs -- one critical
    #    section: the generated files and the .vo files built from them must not be
    #    interleaved with a concurrent check working on another copy of the crate
    import gen
    hits = forbidden_scan()
    if hits:
        problems.append({"kind": "forbidden", "what": hits[:20]})
    import pin
    for msg in pin.compare(pid):
        problems.append({"kind": "proof", "what": {"pinned": msg}})
    targets = ["properties/%s.vo" % pid, "extract/Extract%s.vo" % pid] + P.get("extra_vo", [])
    with Lock():
        rg = regen()
        gen.gen_corr()
        gen.gen_project()
        ok, broken = coq_build(targets, P.get("coq_timeout", 1500))
        prop_v = os.path.join(COQ, "properties", "%s.v" % pid)
        names = theorem_names(prop_v) if os.path.exists(prop_v) else []
        if ok:
            assum, aerr = print_assumptions(pid, names)
        else:
            assum, aerr = {n: "missing" for n in names}, "build failed"
        exe_model, merr = model_build(pid)
        if exe_model is not None:
            # private copy: a concurrent check may rebuild the shared runner
            priv = os.path.join(workdir, "model_run")
            with open(exe_model, "rb") as a, open(priv, "wb") as bfile:
                bfile.write(a.read())
            os.chmod(priv, 0o755)
            exe_model = priv
    ev["regen"] = rg
    for g in rg.get("errors", []):
        if not P.get("regen_files") or g.get("file") in P["regen_files"] or g.get("file") == "*":
            if P.get("regen_files"):
                problems.append({"kind": "regen", "what": g})
    allow = set(P.get("axiom_allowlist", []))
    discharged = 0
    for n in names:
        a = assum.get(n)
        if a == "closed" or (isinstance(a, list) and set(a) <= allow):
            discharged += 1
        else:
            problems.append({"kind": "proof", "what": {"theorem": "%s.%s" % (pid, n), "assumptions": a}})
    if not ok:
        for b in broken:
            problems.append({"kind": "proof", "what": b})
    if not names:
        problems.append({"kind": "proof", "what": "no property theorems found for %s" % pid})
    ev["theorems"] = assum
    if tier == "thorough" and ok:
        ck = coqchk(pid)
        ev["coqchk"] = ck
        if not ck.get("ok"):
            problems.append({"kind": "proof", "what": {"coqchk": ck}})
    if exe_model is None:
        problems.append({"kind": "model-build", "what": merr})

    # 3. correspondence
    total_cases = 0
    distinct_nontrivial = set()
    samples = []
    dist_all = {}
    for run in P.get("runs", []):
        if tier not in run.get("tiers", ["quick", "thorough"]):
            continue
        tag = run["tag"]
        with Lock("cargo"):
            exe, berr = harness_build(run["bin"], run.get("features", []), run.get("profile", "dev"))
        if exe is None:
            problems.append({"kind": "harness-build", "what": berr[-1500:], "run": tag})
            ev["runs"].append({"tag": tag, "status": "build-failed"})
            continue
        implp = os.path.join(workdir, tag + ".impl.txt")
        env = dict(run.get("env", {}))
        env["VERIF_REPO"] = REPO
        env["VERIF_OUT"] = workdir
        rc, _, herr = sh([exe, "--tier", tier, "--seed", str(seed)] + run.get("args", []),
                         run.get("timeout", {}).get(tier, 1200) if isinstance(run.get("timeout"), dict) else run.get("timeout", 1200),
                         cwd=workdir, env=env, stdout_path=implp)
        recs, dist, notes = parse_harness(implp)
        for k, v in dist.items():
            dist_all[tag + "." + k] = v
        ev["notes"] += notes
        rinfo = {"tag": tag, "cases": len(recs), "exit": rc, "mismatches": 0, "oracle_failures": 0}
        if rc != 0:
            last = recs[-1] if recs else None
            why = "harness exited with status %s" % rc + (" while running the last CASE" if last and last["obs"] is None else "")
            problems.append({"kind": "harness-exit", "what": why + "; stderr tail: " + herr[-400:], "run": tag})
            if last is not None and last["obs"] is None:
                failing.append({"run": tag, "case": last["case"], "why": why + " (abort/UB-check/signal)",
                                "impl": None, "model": None})
        # model side
        model_lines = None
        if run.get("model", True) and exe_model is not None and recs:
            mrc, model_lines, merr2 = model_run(exe_model, run.get("num", P["num"]), [r["case"] for r in recs], workdir, tag)
            if mrc != 0 or len(model_lines) != len(recs):
                problems.append({"kind": "model-run", "what": "model runner rc=%s lines=%s/%s %s" % (
                    mrc, len(model_lines), len(recs), merr2[-300:]), "run": tag})
                model_lines = None
        nontriv = props.nontrivial_rule(P)
        known = known_findings()
        for idx, r in enumerate(recs):
            total_cases += 1
            if r["obs"] is not None and nontriv(r["case"], r["obs"]):
                distinct_nontrivial.add(hashlib.sha1((tag + "|" + r["case"]).encode()).hexdigest())
            if len(samples) < 6 and idx % max(1, len(recs) // 3) == 0:
                samples.append({"run": tag, "case": r["case"][:300], "impl_obs": (r["obs"] or "")[:300]})
            bad = []
            for o in r["oracle"]:
                rinfo["oracle_failures"] += 1
                bad.append(("direct oracle: " + o, True))
            if model_lines is not None and r["obs"] is not None and model_lines[idx].strip() != r["obs"].strip():
                rinfo["mismatches"] += 1
                bad.append(("implementation differs from the proved model",
                            run.get("mismatch_is_failing", P.get("mismatch_is_failing", True))))
            if not bad:
                continue
            key = case_key(tag, r["case"])
            if (pid, key) in known:
                known_hit[key] = known[(pid, key)]
                continue
            item = {"run": tag, "case": r["case"], "why": "; ".join(b[0] for b in bad),
                    "impl": r["obs"], "model": model_lines[idx] if model_lines else None}
            if any(b[1] for b in bad):
                failing.append(item)
            else:
                nonfailing_mismatch.append(item)
        if not recs and run.get("expect_cases", True):
            problems.append({"kind": "harness-empty", "what": "no cases produced; stderr: " + herr[-400:], "run": tag})
        ev["runs"].append(rinfo)
    if nonfailing_mismatch:
        problems.append({"kind": "correspondence",
                         "what": {"disagreements": len(nonfailing_mismatch), "first": nonfailing_mismatch[0]}})

    # 4. verdict
    violations = 0
    lines = []
    for key, text in sorted(known_hit.items()):
        lines.append("KNOWN-FINDING: property=%s %s" % (pid, text))
    failing.sort(key=lambda f: (len(f["case"].split()), f["case"]))
    if failing:
        rp = write_replay(pid, "failing-input", failing[0], problems, len(failing), failing[:10])
        lines.append("VIOLATION property=%s replay=%s" % (pid, rp))
        violations = len(failing)
    elif problems:
        rp = write_replay(pid, "no-failing-input-found", None, problems, 0, [])
        lines.append("VIOLATION property=%s replay=%s no-failing-input-found" % (pid, rp))
        violations = 1

    # 5. evidence
    wall = time.time() - t0
    cov = {
        "obligations": max(len(names), 1),
        "discharged": discharged,
        "checker_cmd": "make -C coq properties/%s.vo && coqc Assume_%s.v (Print Assumptions of every theorem in properties/%s.v)" % (pid, pid, pid),
        "trusted_base": TRUSTED_BASE + P.get("trusted_extra", []),
        "evaluations": total_cases,
        "distinct_nontrivial": len(distinct_nontrivial),
        "rule": P.get("rule", "cases are enumerated/sampled by the harness bin; distinct = distinct CASE lines; non-trivial = observable line has more than two integers"),
        "samples": samples or [{"note": "no correspondence cases in this run"}],
        "theorems": assum,
        "regen": rg,
        "coqchk": ev.get("coqchk", "quick tier: not run (thorough tier re-checks the compiled closure with coqchk -o)"),
        "runs": ev["runs"],
        "input_distribution": dist_all,
        "problems": [p for p in problems][:20],
        "notes": ev["notes"][:40],
        "exhaustive": False,
    }
    evidence = {
        "property_id": pid, "tier": tier, "seed": seed, "level": "proof", "coverage": cov,
        "assumptions": P.get("assumptions", []), "wall_s": round(wall, 2), "violations": violations,
    }
    # evidence is only ever written for /repo itself; runs against a scratch copy
    # (VERIF_REPO, seeded changes) keep theirs under out/
    evdir = os.path.join(VERIF, "evidence") if os.path.realpath(REPO) == "/repo" else os.path.join(OUT, "evidence-scratch")
    os.makedirs(evdir, exist_ok=True)
    with open(os.path.join(evdir, "%s.json" % pid), "w") as f:
        json.dump(evidence, f, indent=1, sort_keys=True)
        f.write("\n")
    if os.path.realpath(REPO) != "/repo":
        # a run against a scratch copy leaves coq/gen as generated from /repo itself
        with Lock():
            regen("/repo")
    for l in lines:
        print(l)
    print("%s %s: theorems %d/%d closed, %d cases, %d failing, %d problems, %.1fs" % (
        pid, tier, discharged, len(names), total_cases, len(failing), len(problems), wall))
    for p in problems[:8]:
        log("  problem: " + json.dumps(p)[:600])
    return 1 if violations else 0


def write_replay(pid, kind, f, problems, nfail, more):
    body = {"property": pid, "kind": kind, "problems": problems[:30], "failing_inputs_total": nfail}
    if f:
        body.update({"run": f["run"], "case": f["case"], "why": f["why"], "impl_obs": f["impl"],
                     "model_obs": f["model"], "more": [{"run": m["run"], "case": m["case"], "why": m["why"]} for m in more[1:]]})
        body["how"] = "./check %s --replay <this file>  (re-runs the case on the implementation and on the model)" % pid
    else:
        body["no_longer_checks"] = [p["what"] for p in problems if p["kind"] in ("proof", "regen", "correspondence", "forbidden")][:20]
    h = hashlib.sha1(json.dumps(body, sort_keys=True).encode()).hexdigest()[:10]
    rp = os.path.join(OUT, "replay", "%s-%s.json" % (pid, h))
    with open(rp, "w") as fh:
        json.dump(body, fh, indent=1)
    return rp


def do_replay(pid, P, path):
    body = json.load(open(path))
    if "case" not in body:
        print(json.dumps(body, indent=1))
        return 0
    run = [r for r in P["runs"] if r["tag"] == body["run"]][0]
    exe, err = harness_build(run["bin"], run.get("features", []), run.get("profile", "dev"))
    if exe is None:
        print(err)
        return 2
    rc, out, err = sh([exe, "--replay", body["case"]] + run.get("args", []), 600, env=run.get("env", {}))
    print("implementation:\n" + out)
    exe_model, _ = model_build(pid)
    if exe_model and run.get("model", True):
        wd = os.path.join(OUT, "run", pid)
        os.makedirs(wd, exist_ok=True)
        _, lines, _ = model_run(exe_model, run.get("num", P["num"]), [body["case"]], wd, "replay")
        print("model (required):\nOBS " + (lines[0] if lines else "?"))
    return 0

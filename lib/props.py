"""props.py -- loads the per-property configuration from lib/props.d/C*.py
(each defines PROP = {...}; see props.d/C06.py for the fields)."""
import glob
import importlib.util
import os


def nontrivial_rule(P):
    f = P.get("nontrivial")
    if f:
        def safe(case, obs, f=f):
            # runs with their own case encoding (probe programs, direct-oracle runs) are simply not counted
            try:
                return bool(f(case, obs))
            except (IndexError, ValueError):
                return False
        return safe
    return lambda case, obs: len(obs.split()) > 2


PROPS = {}
for _p in sorted(glob.glob(os.path.join(os.path.dirname(os.path.abspath(__file__)), "props.d", "C*.py"))):
    _name = os.path.basename(_p)[:-3]
    _spec = importlib.util.spec_from_file_location("props_d_" + _name, _p)
    _mod = importlib.util.module_from_spec(_spec)
    _spec.loader.exec_module(_mod)
    PROPS[_name] = _mod.PROP

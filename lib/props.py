"""props.py -- per-property configuration of ./check."""


def nontrivial_rule(P):
    f = P.get("nontrivial")
    if f:
        return f
    return lambda case, obs: len(obs.split()) > 2


PROPS = {
    "C06": {
        "num": 6,
        "runs": [{"tag": "c06", "bin": "c06"}],
        "mismatch_is_failing": True,
        "rule": "exhaustive: every reachable (front,back) position (directly and through clone) x every operation x every argument 0..=len+2 and usize::MAX for N<=5 (thorough: N<=8), followed by a fixed observation trailer; plus seeded histories over N in {0,1,2,3,5,8,16,97,1024}. distinct = distinct CASE lines; non-trivial = the array is non-empty (first integer > 0)",
        "nontrivial": lambda case, obs: case.split()[0] != "0",
    },
}

"""regen.py -- runs the translator (tools/ga2coq) over /repo/src and rewrites
coq/gen/*.v only when their content changes."""
import os


def run(repo, coq, build, sh, Lock, log):
    exe = os.path.join(build, "ga2coq-target", "release", "ga2coq")
    src = os.path.join(os.path.dirname(coq), "tools", "ga2coq")
    if not os.path.isdir(src):
        return {"status": "no-translator", "files": {}, "errors": []}
    if not os.path.exists(exe) or any(
            os.path.getmtime(os.path.join(r, f)) > os.path.getmtime(exe)
            for r, _, fs in os.walk(src) for f in fs if f.endswith((".rs", ".toml"))):
        rc, out, err = sh(["cargo", "build", "--offline", "--release"], 900, cwd=src,
                          env={"CARGO_TARGET_DIR": os.path.join(build, "ga2coq-target")})
        if rc != 0:
            return {"status": "translator-build-failed", "files": {}, "errors": [{"file": "*", "message": err[-800:]}]}
    tmp = os.path.join(build, "gen-tmp")
    os.makedirs(tmp, exist_ok=True)
    for f in os.listdir(tmp):
        os.remove(os.path.join(tmp, f))
    rc, out, err = sh([exe, os.path.join(repo, "src"), tmp], 120)
    res = {"status": "ok" if rc == 0 else "translator-failed", "files": {}, "errors": []}
    for line in out.split("\n"):
        if line.startswith("ERROR "):
            parts = line.split(" ", 2)
            res["errors"].append({"file": parts[1], "message": parts[2] if len(parts) > 2 else ""})
    if rc != 0 and not res["errors"]:
        res["errors"].append({"file": "*", "message": err[-800:]})
    gen = os.path.join(coq, "gen")
    for f in sorted(os.listdir(tmp)):
        new = open(os.path.join(tmp, f)).read()
        dst = os.path.join(gen, f)
        old = open(dst).read() if os.path.exists(dst) else None
        if old != new:
            with open(dst, "w") as fh:
                fh.write(new)
            res["files"][f] = "changed"
        else:
            res["files"][f] = "unchanged"
    return res

#!/bin/bash
# seed_test.sh <PROP> <dir with patchK.diff demoK.rs metaK.json> [extra props to run too]
# For each patch: scratch copy of /repo, confirm (a) applies, (b) existing suite passes, (c) demo fails with / passes
# without the change, then run ./check against the scratch copy.  Results: <dir>/resultK.txt
P=$1; D=$2; shift 2; EXTRA="$@"
S=/tmp/st/$P
mkdir -p $S
for k in 1 2 3; do
  [ -f $D/patch$k.diff ] || continue
  R=$S/repo
  rm -rf $R; mkdir -p $R; (cd /repo && git archive HEAD) | tar -x -C $R
  cp /repo/Cargo.lock $R/ 2>/dev/null; find $R/src $R/tests -name "*.rs" -exec touch {} +
  out=$D/result$k.txt; : > $out
  # demo on the clean tree
  cp $D/demo$k.rs $R/tests/demo$k.rs
  (cd $R && CARGO_TARGET_DIR=$S/target timeout 900 cargo test --offline --features "alloc serde zeroize const-default internals" --test demo$k >$S/demo_clean.log 2>&1); echo "demo_on_clean_exit=$?" >> $out
  rm $R/tests/demo$k.rs
  if ! (cd $R && patch -p1 --quiet < $D/patch$k.diff); then echo "patch_applies=no" >> $out; continue; fi
  echo "patch_applies=yes" >> $out
  (cd $R && CARGO_TARGET_DIR=$S/target timeout 900 cargo test --workspace --no-fail-fast --offline >$S/suite.log 2>&1); echo "suite_exit=$?" >> $out
  cp $D/demo$k.rs $R/tests/demo$k.rs
  (cd $R && CARGO_TARGET_DIR=$S/target timeout 900 cargo test --offline --features "alloc serde zeroize const-default internals" --test demo$k >$S/demo_patched.log 2>&1); echo "demo_on_patched_exit=$?" >> $out
  rm $R/tests/demo$k.rs
  for Q in $P $EXTRA; do
    (cd /verif && VERIF_REPO=$R timeout 1800 ./check $Q --tier quick > $S/check_$Q.log 2>&1); rc=$?
    echo "check_$Q exit=$rc $(grep -E '^VIOLATION' $S/check_$Q.log | head -1) | $(grep -E "^$Q quick" $S/check_$Q.log)" >> $out
  done
done
t=$(python3 -c "import hashlib,os;print(hashlib.sha1(os.path.realpath('$S/repo').encode()).hexdigest()[:8])")
rm -rf /verif/.build/harness-shadow-$t /verif/.build/harness-target-$t /verif/.build/harness-target-$t-*
rm -rf $S/repo $S/target
echo "done $P"

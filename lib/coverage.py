#!/usr/bin/env python3
"""coverage.py -- writes COVERAGE.md: every function of /repo/src (outside test modules) with the regenerated
artefact(s) of coq/gen/ that cover it and the tie that is proved about them.  Run after ./check (needs the
translator binary and the current coq/gen/*.v)."""
import os
import re
import subprocess
import sys

VERIF = os.path.dirname(os.path.dirname(os.path.abspath(__file__)))
REPO = os.environ.get("VERIF_REPO", "/repo")
EXE = os.path.join(VERIF, ".build", "ga2coq-target", "release", "ga2coq")

# bodies with more than one statement: (file, fn) -> (tier, generated item, tie / theorem)
MULTI = {
    ("hex.rs", "generic_hex"): ("T3", "GenHex.gen_generic_hex", "HexTie.tie_generic_hex (C14_source_generic_hex)"),
    ("hex.rs", "hex_encode_fallback"): ("T2", "GenGuards.hex_alphabets / hex_fallback_*", "GuardTieHex.tie_hex_fallback"),
    ("hex.rs", "hex_encode"): ("T1", "GenHex.gen_hex_encode", "HexTie.tie_hex_encode"),
    ("impl_alloc.rs", "try_from"): ("T3", "GenHeap.gen_heap_table", "HeapTie (C15_source_*)"),
    ("impl_alloc.rs", "try_from_boxed_slice"): ("T3", "GenHeap.gen_heap_table", "HeapTie (C15_source_*)"),
    ("impl_alloc.rs", "try_boxed_from_iter"): ("T3", "GenCollect.gen_try_boxed_from_iter", "CollectTie.tie_try_boxed_from_iter"),
    ("impl_alloc.rs", "generate"): ("T3", "GenPipe.gen_boxed_generate(+_frame)", "PipeTie.tie_generate / C16_source_boxed_generate_frame"),
    ("impl_serde.rs", "serialize"): ("T3", "GenSerde.gen_serialize", "SerdeTie.tie_serialize"),
    ("impl_serde.rs", "visit_seq"): ("T3", "GenSerde.gen_visit_seq", "SerdeTie.tie_visit_seq"),
    ("impl_serde.rs", "deserialize"): ("T1", "GenSerde.gen_deserialize", "SerdeTie.tie_deserialize"),
    ("internal.rs", "extend"): ("T3", "GenCollect.gen_extend / gen_array_builder_extend", "CollectTie"),
    ("internal.rs", "assume_init"): ("T1", "GenSigs.gen_small_bodies", "C03_source_builder_endings"),
    ("internal.rs", "finish"): ("T1", "GenSigs.gen_small_bodies", "C03_source_builder_endings"),
    ("iter.rs", "clone"): ("T3", "GenPipe.gen_iter_clone", "PipeTie.tie_iter_clone"),
    ("iter.rs", "fold"): ("T3", "GenPipe.gen_iter_fold", "PipeTie.tie_iter_fold"),
    ("iter.rs", "rfold"): ("T3", "GenPipe.gen_iter_rfold", "PipeTie.tie_iter_rfold"),
    ("iter.rs", "size_hint"): ("T3", "GenIter.iter_size_hint", "IterTie.tie_size_hint"),
    ("iter.rs", "nth"): ("T3", "GenIter.iter_nth", "IterTie.tie_nth"),
    ("iter.rs", "nth_back"): ("T3", "GenIter.iter_nth_back", "IterTie.tie_nth_back"),
    ("iter.rs", "next"): ("T3", "GenIter.iter_next", "IterTie.tie_next"),
    ("iter.rs", "drop"): ("T3", "GenIter.iter_drop", "IterTie.tie_drop"),
    ("internal.rs", "drop"): ("T3", "GenIter.builder_drop / ibuilder_drop / consumer_drop", "IterTie.tie_builder_drop / tie_consumer_drop"),
    ("lib.rs", "generate"): ("T3", "GenPipe.gen_generate(+_frame)", "PipeTie.tie_generate"),
    ("lib.rs", "map"): ("T3", "GenPipe.gen_map", "PipeTie.tie_map"),
    ("lib.rs", "fold"): ("T3", "GenPipe.gen_fold", "PipeTie.tie_fold"),
    ("lib.rs", "inverted_zip"): ("T3", "GenPipe.gen_inverted_zip", "PipeTie.tie_zip / tie_zip_nodrop"),
    ("lib.rs", "inverted_zip2"): ("T3", "GenPipe.gen_inverted_zip2", "PipeTie.tie_zip2 / tie_zip2_nodrop"),
    ("lib.rs", "from_slice"): ("T2+T1", "GenGuards.from_slice_guard, GenSigs.gen_small_bodies", "GuardTieViews.tie_from_slice, C02_source_slice_casts"),
    ("lib.rs", "try_from_slice"): ("T2+T1", "GenGuards.try_from_slice_guard, GenSigs.gen_small_bodies", "GuardTieViews.tie_try_from_slice, C02_source_slice_casts"),
    ("lib.rs", "from_mut_slice"): ("T2+T1", "GenGuards.from_mut_slice_guard, GenSigs.gen_small_bodies", "GuardTieViews.tie_from_mut_slice, C02_source_slice_casts"),
    ("lib.rs", "chunks_from_slice"): ("T2", "GenGuards.chunks_from_slice_*", "GuardTieChunks.tie_chunks_arith / tie_chunks_model"),
    ("lib.rs", "chunks_from_slice_mut"): ("T2", "GenGuards.chunks_from_slice_mut_*", "GuardTieChunks.tie_chunks_mut_arith"),
    ("lib.rs", "try_from_iter"): ("T3", "GenCollect.gen_try_from_iter", "CollectTie.tie_try_from_iter"),
    ("lib.rs", "const_transmute"): ("T2+T1", "GenGuards.const_transmute_guard, GenSigs.gen_small_bodies", "GuardTieTransmute.tie_const_transmute, C18_source_const_transmute_body"),
    ("sequence.rs", "inverted_zip"): ("T3", "GenPipe.gen_default_inverted_zip", "PipeTie.tie_default_zip"),
    ("sequence.rs", "append"): ("T3", "GenSeq.gen_append", "PtrTie.tie_append"),
    ("sequence.rs", "prepend"): ("T3", "GenSeq.gen_prepend", "PtrTie.tie_prepend"),
    ("sequence.rs", "pop_back"): ("T3", "GenSeq.gen_pop_back", "PtrTie.tie_pop_back"),
    ("sequence.rs", "pop_front"): ("T3", "GenSeq.gen_pop_front", "PtrTie.tie_pop_front"),
    ("sequence.rs", "split"): ("T3", "GenSeq.gen_split / gen_split_ref / gen_split_mut", "PtrTie.tie_split*"),
    ("sequence.rs", "concat"): ("T3", "GenSeq.gen_concat", "PtrTie.tie_concat"),
    ("sequence.rs", "remove"): ("T3+T2", "GenSeq.gen_remove, GenGuards.remove_guard", "PtrTie.tie_remove, GuardTieRemove.tie_remove_guard"),
    ("sequence.rs", "swap_remove"): ("T3+T2", "GenSeq.gen_swap_remove, GenGuards.swap_remove_guard", "PtrTie.tie_swap_remove"),
    ("sequence.rs", "remove_unchecked"): ("T3", "GenSeq.gen_remove_unchecked", "PtrTie.tie_remove_unchecked"),
    ("sequence.rs", "swap_remove_unchecked"): ("T3", "GenSeq.gen_swap_remove_unchecked", "PtrTie.tie_swap_remove_unchecked"),
}


def main():
    out = subprocess.run([EXE, os.path.join(REPO, "src"), "/tmp/ga2coq-coverage-out"], env=dict(os.environ, GA2COQ_COVERAGE="1"),
                         capture_output=True, text=True).stdout
    gens = {f: open(os.path.join(VERIF, "coq", "gen", f)).read() for f in os.listdir(os.path.join(VERIF, "coq", "gen")) if f.endswith(".v")}
    thin = gens.get("GenSigs.v", "")
    rows, missing = [], []
    for line in out.split("\n"):
        m = re.match(r"(THIN|MULTI) (\S+) (\S+) (\S+) (\d+)", line)
        if not m:
            continue
        kind, f, owner, fn, n = m.groups()
        if (f, fn) in MULTI and (kind == "MULTI" or not re.search(r'\("%s", "[^"]*", "%s", "' % (re.escape(f), re.escape(fn)), thin)):
            rows.append((f, owner, fn) + MULTI[(f, fn)])
            continue
        if kind == "THIN":
            hit = re.search(r'\("%s", "[^"]*", "%s", "' % (re.escape(f), re.escape(fn)), thin)
            if hit:
                rows.append((f, owner, fn, "T1", "GenSigs.gen_thin_bodies", "CNN_source_thin_bodies"))
                continue
            # one-statement bodies outside impl blocks of array types: covered by name elsewhere?
            where = [g for g, t in gens.items() if re.search(r"\b%s\b" % re.escape(fn), t)]
            if where:
                rows.append((f, owner, fn, "T1/T3", ", ".join(sorted(where)), "(by name)"))
            else:
                missing.append((f, owner, fn))
            continue
        cov = MULTI.get((f, fn))
        if cov:
            rows.append((f, owner, fn) + cov)
        else:
            missing.append((f, owner, fn))
    with open(os.path.join(VERIF, "COVERAGE.md"), "w") as fh:
        fh.write("# Which regenerated artefact covers which function of /repo/src\n\n")
        fh.write("Generated by `python3 lib/coverage.py` from the translator's listing of every function body outside test\n"
                 "modules (`GA2COQ_COVERAGE=1`) and the current `coq/gen/*.v`. T1 = pinned text / table row, T2 = guard or\n"
                 "arithmetic expression with a semantic tie, T3 = body translated into a program language whose interpretation is\n"
                 "proved equal to the hub model. Declarations (structs, trait headers, macro arms) are covered by GenLayoutDecls,\n"
                 "GenSigs, GenLifetimes, GenConstDefaultDecls, GenMacro and are not listed here.\n\n")
        fh.write("| file | impl / trait | fn | tier | generated item | tie |\n|---|---|---|---|---|---|\n")
        for r in sorted(rows):
            fh.write("| %s | `%s` | `%s` | %s | %s | %s |\n" % r)
        fh.write("\n%d functions listed, %d without a regenerated artefact%s\n" % (
            len(rows) + len(missing), len(missing),
            (": " + ", ".join("%s %s::%s" % m for m in missing)) if missing else "."))
    print("%d covered, %d missing" % (len(rows), len(missing)))
    for m in missing:
        print("MISSING", *m)
    return 0


if __name__ == "__main__":
    sys.exit(main())

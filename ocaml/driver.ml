(* driver.ml -- runs the extracted hub model on encoded cases.
   stdin : one case per line, "<property number> <int> <int> ..."
   stdout: one line per case with the encoded observables. *)
(* no `open Model`: the extracted code may define its own `string`, `list` ... types *)

let rec pos_of_int (n : int) : Model.positive =
  if n = 1 then Model.XH
  else if n land 1 = 0 then Model.XO (pos_of_int (n lsr 1))
  else Model.XI (pos_of_int (n lsr 1))

let z_of_int (n : int) : Model.z =
  if n = 0 then Model.Z0 else if n > 0 then Model.Zpos (pos_of_int n) else Model.Zneg (pos_of_int (-n))

let ten = z_of_int 10

(* decimal literal of any size (usize::MAX does not fit an OCaml int) *)
let z_of_string (s : string) : Model.z =
  let neg = String.length s > 0 && s.[0] = '-' in
  let start = if neg then 1 else 0 in
  if String.length s - start <= 17 then z_of_int (int_of_string s)
  else begin
    let acc = ref Model.Z0 in
    for i = start to String.length s - 1 do
      acc := Model.Z.add (Model.Z.mul !acc ten) (z_of_int (Char.code s.[i] - 48))
    done;
    if neg then Model.Z.opp !acc else !acc
  end

let rec int_of_pos (p : Model.positive) : int =
  match p with Model.XH -> 1 | Model.XO q -> 2 * int_of_pos q | Model.XI q -> 2 * int_of_pos q + 1

let rec pos_bits (p : Model.positive) : int = match p with Model.XH -> 1 | Model.XO q | Model.XI q -> 1 + pos_bits q

let rec string_of_z (x : Model.z) : string =
  match x with
  | Model.Z0 -> "0"
  | Model.Zneg p -> "-" ^ string_of_z (Model.Zpos p)
  | Model.Zpos p ->
    if pos_bits p <= 61 then string_of_int (int_of_pos p)
    else begin
      let (q, r) = Model.Z.div_eucl x ten in
      string_of_z q ^ string_of_z r
    end

let () =
  let buf = Buffer.create 65536 in
  (try
     while true do
       let line = input_line stdin in
       let toks = List.filter (fun t -> t <> "") (String.split_on_char ' ' line) in
       match toks with
       | [] -> Buffer.add_char buf '\n'
       | p :: rest ->
         let case = List.map z_of_string rest in
         let obs = Model.run_case (z_of_string p) case in
         let first = ref true in
         List.iter
           (fun v ->
              if not !first then Buffer.add_char buf ' ';
              first := false;
              Buffer.add_string buf (string_of_z v))
           obs;
         Buffer.add_char buf '\n';
         if Buffer.length buf > 60000 then begin
           print_string (Buffer.contents buf);
           Buffer.clear buf
         end
     done
   with End_of_file -> ());
  print_string (Buffer.contents buf)
